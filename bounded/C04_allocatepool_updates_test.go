// govc:bounded property=C04 dir=cmd/plugins/topology-aware/policy
// Bounded stand-in (NOT a proof) for the zone-update loop at the end of (*policy).allocatePool (pools.go): when the
// memory allocator, while admitting a container, widens the zones of OTHER containers, each of their grants must record
// the zone the allocator now assigns and - iff memory pinning is on - the container must be told exactly that zone in the
// same request; with memory pinning off no container is ever told memory nodes (C12).
// Why bounded: allocatePool's first half (affinity calculation, pool scoring and sorting, offers kept inside score
// objects) is outside the verified subset; every contract it would need there could only be assumed. The same loop in
// (*grant).ReallocMemory and supply.Allocate's hand-over of the allocator's updates ARE proved (C04 contracts).
// What is checked on the real code after EVERY request of every case: for every grant in p.allocations.grants the
// grant's memory zone equals libmem's AssignedZone(id); with PinMemory on, every non-preserve container's cached
// cpuset.mems equals that zone's MemsetString(); with PinMemory off, no container has cpuset.mems set.
// Bound: the `server` sysfs fixture (4 DRAM + 4 PMEM nodes); PinMemory in {on, off}; 24 fixed sequences (every order of
// four 20G burstable DRAM-only containers followed by one 20G/28G guaranteed container, which overcommits a node) plus
// VERIF_SEED-seeded 40 random sequences of 8 allocate/release requests with sizes from {6G,12G,20G,28G}, QoS from
// {burstable, guaranteed}, memory type from {dram, default}.
package topologyaware

import (
	"fmt"
	"math/rand"
	"os"
	"path"
	"strconv"
	"testing"

	nri "github.com/containerd/nri/pkg/api"

	cfgapi "github.com/containers/nri-plugins/pkg/apis/config/v1alpha1/resmgr/policy/topologyaware"
	"github.com/containers/nri-plugins/pkg/resmgr/cache"
	policyapi "github.com/containers/nri-plugins/pkg/resmgr/policy"
	system "github.com/containers/nri-plugins/pkg/sysfs"
	"github.com/containers/nri-plugins/pkg/utils"
)

const govcGB = int64(1024 * 1024 * 1024)

func govcSetup(t *testing.T, sysfsDir string, pinMemory bool) (*policy, cache.Cache) {
	t.Helper()
	sys, err := system.DiscoverSystemAt(path.Join(sysfsDir, "sysfs", "server", "sys"))
	if err != nil {
		t.Fatalf("failed to discover test system: %v", err)
	}
	cch, err := cache.NewCache(cache.Options{CacheDir: t.TempDir()})
	if err != nil {
		t.Fatalf("failed to create cache: %v", err)
	}
	p := New().(*policy)
	if err := p.Setup(&policyapi.BackendOptions{
		Cache:  cch,
		System: sys,
		Config: &cfgapi.Config{PinCPU: true, PinMemory: pinMemory,
			ReservedResources: cfgapi.Constraints{cfgapi.CPU: "750m"}},
		SendEvent: func(interface{}) error { return nil },
	}); err != nil {
		t.Fatalf("failed to set up policy: %v", err)
	}
	if err := p.Start(); err != nil {
		t.Fatalf("failed to start policy: %v", err)
	}
	return p, cch
}

func govcContainer(t *testing.T, cch cache.Cache, id, qos string, milliCPU, memLimit int64, ann map[string]string) cache.Container {
	t.Helper()
	pod := &nri.PodSandbox{Id: "pod-" + id, Uid: "uid-" + id, Name: "pod-" + id, Namespace: "default", Annotations: ann,
		Linux: &nri.LinuxPodSandbox{CgroupParent: "/kubepods/" + qos + "/pod-" + id}}
	if cch.InsertPod(pod, nil) == nil {
		t.Fatalf("failed to insert pod %s", pod.Id)
	}
	ctr := &nri.Container{Id: "ctr-" + id, PodSandboxId: pod.Id, Name: "c0", State: cache.ContainerStateCreating,
		Linux: &nri.LinuxContainer{Resources: &nri.LinuxResources{
			Cpu:    &nri.LinuxCPU{Shares: nri.UInt64(uint64(cache.MilliCPUToShares(milliCPU))), Quota: nri.Int64(milliCPU * 100), Period: nri.UInt64(100000)},
			Memory: &nri.LinuxMemory{Limit: nri.Int64(memLimit)}}}}
	c, err := cch.InsertContainer(ctr)
	if err != nil || c == nil {
		t.Fatalf("failed to insert container %s: %v", ctr.Id, err)
	}
	return c
}

// govcCheck: the clause, for every grant the policy holds.
func govcCheck(t *testing.T, p *policy, pinMemory bool, where string) bool {
	ok := true
	for id, g := range p.allocations.grants {
		zone, found := p.memAllocator.AssignedZone(id)
		if !found {
			t.Errorf("GOVC-BOUNDED-VIOLATED %s: grant of %s has no allocation in the memory allocator", where, id)
			ok = false
			continue
		}
		if g.GetMemoryZone() != zone {
			t.Errorf("GOVC-BOUNDED-VIOLATED %s: grant of %s records zone %s, the allocator assigns %s", where, id, g.GetMemoryZone(), zone)
			ok = false
		}
		told := g.GetContainer().GetCpusetMems()
		if pinMemory {
			if g.MemoryType() != memoryPreserve && told != zone.MemsetString() {
				t.Errorf("GOVC-BOUNDED-VIOLATED %s: %s is told mems %q, the allocator assigns %q", where, id, told, zone.MemsetString())
				ok = false
			}
		} else if told != "" {
			t.Errorf("GOVC-BOUNDED-VIOLATED %s: memory pinning is off but %s is told mems %q", where, id, told)
			ok = false
		}
	}
	return ok
}

type govcReq struct {
	id      string
	qos     string
	mem     int64
	dram    bool
	release bool
}

func govcRun(t *testing.T, sysfsDir string, pinMemory bool, name string, reqs []govcReq) bool {
	p, cch := govcSetup(t, sysfsDir, pinMemory)
	live := map[string]cache.Container{}
	for i, r := range reqs {
		where := fmt.Sprintf("%s pinMemory=%v step %d (%+v)", name, pinMemory, i, r)
		if r.release {
			c, ok := live[r.id]
			if !ok {
				continue
			}
			if err := p.ReleaseResources(c); err != nil {
				t.Logf("%s: release failed: %v", where, err)
			}
			delete(live, r.id)
		} else {
			if _, ok := live[r.id]; ok {
				continue
			}
			var ann map[string]string
			if r.dram {
				ann = map[string]string{preferMemoryTypeKey: "dram"}
			}
			c := govcContainer(t, cch, r.id, r.qos, 500, r.mem, ann)
			if err := p.AllocateResources(c); err != nil {
				// a refused request must leave the clause intact, too
				t.Logf("%s: allocation refused: %v", where, err)
			} else {
				live[r.id] = c
				c.UpdateState(cache.ContainerStateRunning)
			}
		}
		if !govcCheck(t, p, pinMemory, where) {
			return false
		}
	}
	return true
}

func govcPerms(xs []string) [][]string {
	if len(xs) <= 1 {
		return [][]string{append([]string{}, xs...)}
	}
	var out [][]string
	for i := range xs {
		rest := append(append([]string{}, xs[:i]...), xs[i+1:]...)
		for _, p := range govcPerms(rest) {
			out = append(out, append([]string{xs[i]}, p...))
		}
	}
	return out
}

func TestGovcBoundedAllocatePoolUpdates(t *testing.T) {
	sysfsDir, err := os.MkdirTemp("", "govc-bounded-sysfs-")
	if err != nil {
		t.Fatal(err)
	}
	defer os.RemoveAll(sysfsDir)
	if err := utils.UncompressTbz2(path.Join("testdata", "sysfs.tar.bz2"), sysfsDir); err != nil {
		t.Fatalf("failed to uncompress test sysfs: %v", err)
	}
	seed := int64(1)
	if s := os.Getenv("VERIF_SEED"); s != "" {
		if v, err := strconv.ParseInt(s, 10, 64); err == nil {
			seed = v
		}
	}
	cases := 0
	for _, pin := range []bool{true, false} {
		for pi, perm := range govcPerms([]string{"a", "b", "c", "d"}) {
			var reqs []govcReq
			for _, id := range perm {
				reqs = append(reqs, govcReq{id: id, qos: "burstable", mem: 20 * govcGB, dram: true})
			}
			big := 20 * govcGB
			if pi%2 == 1 {
				big = 28 * govcGB
			}
			reqs = append(reqs, govcReq{id: "g", qos: "guaranteed", mem: big, dram: true})
			cases++
			if !govcRun(t, sysfsDir, pin, fmt.Sprintf("fixed#%d", pi), reqs) {
				fmt.Printf("GOVC-BOUNDED-CASES %d\n", cases)
				return
			}
		}
		rng := rand.New(rand.NewSource(seed))
		sizes := []int64{6 * govcGB, 12 * govcGB, 20 * govcGB, 28 * govcGB}
		for k := 0; k < 40; k++ {
			var reqs []govcReq
			for j := 0; j < 8; j++ {
				r := govcReq{id: fmt.Sprintf("r%d", rng.Intn(6)), qos: []string{"burstable", "guaranteed"}[rng.Intn(2)],
					mem: sizes[rng.Intn(len(sizes))], dram: rng.Intn(3) != 0, release: rng.Intn(4) == 0}
				reqs = append(reqs, r)
			}
			cases++
			if !govcRun(t, sysfsDir, pin, fmt.Sprintf("random#%d", k), reqs) {
				fmt.Printf("GOVC-BOUNDED-CASES %d\n", cases)
				return
			}
		}
	}
	fmt.Printf("GOVC-BOUNDED-CASES %d\n", cases)
}
