// govc:bounded property=C20 dir=pkg/kubernetes
// Bounded stand-in (NOT a proof) for CalculateOomAdjToMemReqEstimates / SetMemoryCapacity: the loop
// invariants of the table builder need non-linear integer arithmetic over float-rounded steps that the
// solvers do not discharge; instead the real code is executed for the capacities below and the
// property clause "the table can be built without failing and every Burstable adjustment maps back" is
// checked on the result. Bound: all capacities k MiB for k in 1..8192, all powers of two 2^20..2^46 and
// their neighbours +-1, and VERIF_SEED-seeded 20000 capacities in [2^20, 2^46].
package kubernetes

import (
	"math/rand"
	"os"
	"strconv"
	"testing"
)

func govcCheckCapacity(t *testing.T, c int64) (ok bool) {
	defer func() {
		if r := recover(); r != nil {
			t.Errorf("GOVC-BOUNDED-VIOLATED capacity=%d: table construction panicked: %v", c, r)
			ok = false
		}
	}()
	SetMemoryCapacity(c)
	for adj := int64(MinBurstableOOMScoreAdj); adj <= MaxBurstableOOMScoreAdj; adj++ {
		req := OomAdjToMemReq(adj, 0)
		if req == nil {
			t.Errorf("GOVC-BOUNDED-VIOLATED capacity=%d adj=%d: no estimate", c, adj)
			return false
		}
		if back := MemReqToOomAdj(*req); back != adj {
			t.Errorf("GOVC-BOUNDED-VIOLATED capacity=%d adj=%d: estimate %d maps back to %d", c, adj, *req, back)
			return false
		}
	}
	return true
}

func TestGovcBoundedOomTable(t *testing.T) {
	saved := GetMemoryCapacity()
	defer SetMemoryCapacity(saved)
	seed, _ := strconv.ParseInt(os.Getenv("VERIF_SEED"), 10, 64)
	n := 0
	bad := 0
	check := func(c int64) {
		n++
		if !govcCheckCapacity(t, c) {
			bad++
		}
	}
	for k := int64(1); k <= 8192 && bad < 5; k++ {
		check(k << 20)
	}
	for e := uint(20); e <= 46 && bad < 5; e++ {
		for _, d := range []int64{-1, 0, 1} {
			if c := int64(1)<<e + d; c >= 1<<20 {
				check(c)
			}
		}
	}
	r := rand.New(rand.NewSource(seed))
	for i := 0; i < 20000 && bad < 5; i++ {
		check(1<<20 + r.Int63n(1<<46-1<<20))
	}
	t.Logf("GOVC-BOUNDED-CASES %d", n)
}
