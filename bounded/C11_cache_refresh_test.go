// govc:bounded property=C11 dir=pkg/resmgr/cache
// Bounded stand-in (NOT a proof) for the classification part of cache.RefreshPods / cache.RefreshContainers.
// Status: CROSS-CHECK ONLY since RefreshPods and the exact classification of RefreshContainers are proved (channel
// receive modelled as an arbitrary value; `unit` spec type; map-iteration `seen` keys) - see verif_contracts_c11.go in
// pkg/resmgr/cache. It is kept because it exercises the same clauses on the real code with concrete inputs.
// What is checked on the real code, for every case: no panic; after RefreshPods(list) the cached pods are exactly
// the listed ones, no cached container belongs to an unlisted pod, the returned containers are exactly the removed
// ones and are marked stale, the returned pods are exactly the removed/inserted ones; after
// RefreshContainers(list) every cached container is listed, every listed container whose pod is cached is cached,
// kept ones are the same objects, removed ones are exactly the unlisted old ones, returned and marked stale.
// Bound: exhaustively all cases with pods from {p0,p1} and containers from {c0,c1,c2} (c0,c1 in p0, c2 in p1): initial
// cache = any subset, runtime lists = any subset (4*8*4*8 = 1024 cases); plus VERIF_SEED-seeded 2000 random cases over
// pods {p0,p1,p2}, containers {c0..c3}, random container-to-pod assignment and duplicated list entries. Containers
// whose pod is in neither the cache nor the runtime list are excluded from the lists given to RefreshContainers
// (InsertContainer refuses them). Cached containers are in states running/creating/created/exited by id (c0..c3).
package cache

import (
	"fmt"
	"math/rand"
	"os"
	"strconv"
	"testing"

	nri "github.com/containerd/nri/pkg/api"
)

var govcPodIDs = []string{"p0", "p1", "p2"}
var govcCtrIDs = []string{"c0", "c1", "c2", "c3"}

func govcMkPod(id string) *nri.PodSandbox {
	return &nri.PodSandbox{Id: id, Name: "pod-" + id, Namespace: "ns", Linux: &nri.LinuxPodSandbox{CgroupParent: "/kubepods/burstable/pod" + id}}
}

func govcMkCtr(id, pod string) *nri.Container {
	return &nri.Container{Id: id, PodSandboxId: pod, Name: "ctr-" + id, State: nri.ContainerState_CONTAINER_RUNNING}
}

// one case: initial cache (pods cp, containers cc), runtime lists (pods lp, containers lc), pod of each container
func govcRefreshCase(t *testing.T, dir string, podOf map[string]string, cp, cc, lp, lc []string) (ok bool) {
	desc := fmt.Sprintf("cachedPods=%v cachedCtrs=%v listPods=%v listCtrs=%v podOf=%v", cp, cc, lp, lc, podOf)
	fail := func(format string, args ...interface{}) {
		t.Errorf("GOVC-BOUNDED-VIOLATED %s: %s", desc, fmt.Sprintf(format, args...))
		ok = false
	}
	ok = true
	defer func() {
		if r := recover(); r != nil {
			fail("panic: %v", r)
		}
	}()
	cch := &cache{
		filePath:   dir + "/cache",
		dataDir:    dir + "/containers",
		Pods:       make(map[string]*pod),
		Containers: make(map[string]*container),
		NextID:     1,
		policyData: make(map[string]interface{}),
		PolicyJSON: make(map[string]string),
		implicit:   make(map[string]ImplicitAffinity),
	}
	in := func(xs []string, x string) bool {
		for _, y := range xs {
			if y == x {
				return true
			}
		}
		return false
	}
	for _, p := range cp {
		cch.InsertPod(govcMkPod(p), nil)
	}
	for _, c := range cc {
		if !in(cp, podOf[c]) {
			continue // cannot be inserted without its pod
		}
		// cached containers cover every cache state (creating, created, running, exited), chosen by container id
		st := []ContainerState{ContainerStateRunning, ContainerStateCreating, ContainerStateCreated, ContainerStateExited}[int(c[len(c)-1]-'0')%4]
		if _, err := cch.InsertContainer(govcMkCtr(c, podOf[c]), WithContainerState(st)); err != nil {
			fail("setup: %v", err)
			return
		}
	}
	oldPods := map[string]*pod{}
	for k, v := range cch.Pods {
		oldPods[k] = v
	}
	oldCtrs := map[string]*container{}
	for k, v := range cch.Containers {
		oldCtrs[k] = v
	}

	// ---- RefreshPods
	var pods []*nri.PodSandbox
	for _, p := range lp {
		pods = append(pods, govcMkPod(p))
	}
	add, del, stale := cch.RefreshPods(pods, nil)
	for id := range cch.Pods {
		if !in(lp, id) {
			fail("pod %s cached after RefreshPods but not listed", id)
		}
	}
	for _, id := range lp {
		if _, ok := cch.Pods[id]; !ok {
			fail("listed pod %s not cached after RefreshPods", id)
		}
	}
	nAdd := 0
	seenAdd := map[string]bool{}
	for _, id := range lp {
		if _, was := oldPods[id]; !was && !seenAdd[id] {
			seenAdd[id] = true
			nAdd++
		}
	}
	if len(add) != nAdd {
		fail("RefreshPods returned %d added pods, expected %d", len(add), nAdd)
	}
	nDel := 0
	for id, p := range oldPods {
		if in(lp, id) {
			if cch.Pods[id] != p {
				fail("kept pod %s replaced", id)
			}
			continue
		}
		nDel++
		found := false
		for _, d := range del {
			if d == Pod(p) {
				found = true
			}
		}
		if !found {
			fail("removed pod %s not returned", id)
		}
	}
	if len(del) != nDel {
		fail("RefreshPods returned %d deleted pods, expected %d", len(del), nDel)
	}
	nStale := 0
	for id, c := range oldCtrs {
		if in(lp, c.GetPodID()) {
			if cch.Containers[id] != c {
				fail("container %s of listed pod dropped by RefreshPods", id)
			}
			continue
		}
		nStale++
		if _, still := cch.Containers[id]; still {
			fail("container %s of unlisted pod %s still cached", id, c.GetPodID())
		}
		if c.GetState() != ContainerStateStale {
			fail("purged container %s not marked stale (state %v)", id, c.GetState())
		}
		found := false
		for _, s := range stale {
			if s == Container(c) {
				found = true
			}
		}
		if !found {
			fail("purged container %s not returned by RefreshPods", id)
		}
	}
	if len(stale) != nStale {
		fail("RefreshPods returned %d containers, expected %d", len(stale), nStale)
	}
	for id, c := range cch.Containers {
		if _, ok := cch.Pods[c.GetPodID()]; !ok {
			fail("container %s cached without its pod %s", id, c.GetPodID())
		}
	}

	// ---- RefreshContainers
	midCtrs := map[string]*container{}
	for k, v := range cch.Containers {
		midCtrs[k] = v
	}
	var ctrs []*nri.Container
	var listed []string
	for _, c := range lc {
		if _, ok := cch.Pods[podOf[c]]; !ok {
			continue // known finding: InsertContainer panics for an unknown pod
		}
		ctrs = append(ctrs, govcMkCtr(c, podOf[c]))
		listed = append(listed, c)
	}
	cadd, cdel := cch.RefreshContainers(ctrs)
	for id := range cch.Containers {
		if !in(listed, id) {
			fail("container %s cached after RefreshContainers but not listed", id)
		}
	}
	for _, id := range listed {
		if _, ok := cch.Containers[id]; !ok {
			fail("listed container %s (pod cached) not cached after RefreshContainers", id)
		}
	}
	nCAdd := 0
	seenC := map[string]bool{}
	for _, id := range listed {
		if _, was := midCtrs[id]; !was && !seenC[id] {
			seenC[id] = true
			nCAdd++
		}
	}
	if len(cadd) != nCAdd {
		fail("RefreshContainers returned %d added, expected %d", len(cadd), nCAdd)
	}
	nCDel := 0
	for id, c := range midCtrs {
		if in(listed, id) {
			if cch.Containers[id] != c {
				fail("kept container %s replaced", id)
			}
			continue
		}
		nCDel++
		if c.GetState() != ContainerStateStale {
			fail("removed container %s not marked stale", id)
		}
		found := false
		for _, d := range cdel {
			if d == Container(c) {
				found = true
			}
		}
		if !found {
			fail("removed container %s not returned", id)
		}
	}
	if len(cdel) != nCDel {
		fail("RefreshContainers returned %d deleted, expected %d", len(cdel), nCDel)
	}
	return ok
}

func govcSubset(all []string, mask int) []string {
	var out []string
	for i, x := range all {
		if mask&(1<<uint(i)) != 0 {
			out = append(out, x)
		}
	}
	return out
}

func TestGovcBoundedCacheRefresh(t *testing.T) {
	dir := t.TempDir()
	if err := os.MkdirAll(dir+"/containers", 0755); err != nil {
		t.Fatal(err)
	}
	seed, _ := strconv.ParseInt(os.Getenv("VERIF_SEED"), 10, 64)
	n, bad := 0, 0
	run := func(podOf map[string]string, cp, cc, lp, lc []string) {
		n++
		if !govcRefreshCase(t, dir, podOf, cp, cc, lp, lc) {
			bad++
		}
	}
	podOf := map[string]string{"c0": "p0", "c1": "p0", "c2": "p1", "c3": "p2"}
	for a := 0; a < 4 && bad < 5; a++ {
		for b := 0; b < 8 && bad < 5; b++ {
			for c := 0; c < 4 && bad < 5; c++ {
				for d := 0; d < 8 && bad < 5; d++ {
					run(podOf, govcSubset(govcPodIDs, a), govcSubset(govcCtrIDs, b), govcSubset(govcPodIDs, c), govcSubset(govcCtrIDs, d))
				}
			}
		}
	}
	rng := rand.New(rand.NewSource(seed))
	for i := 0; i < 2000 && bad < 5; i++ {
		po := map[string]string{}
		for _, c := range govcCtrIDs {
			po[c] = govcPodIDs[rng.Intn(len(govcPodIDs))]
		}
		lp := govcSubset(govcPodIDs, rng.Intn(8))
		lc := govcSubset(govcCtrIDs, rng.Intn(16))
		if rng.Intn(3) == 0 && len(lp) > 0 {
			lp = append(lp, lp[rng.Intn(len(lp))]) // duplicated list entry
		}
		if rng.Intn(3) == 0 && len(lc) > 0 {
			lc = append(lc, lc[rng.Intn(len(lc))])
		}
		run(po, govcSubset(govcPodIDs, rng.Intn(8)), govcSubset(govcCtrIDs, rng.Intn(16)), lp, lc)
	}
	t.Logf("GOVC-BOUNDED-CASES %d", n)
}
