package main

// SMT term representation, light simplification, printing.

import (
	"fmt"
	"math/big"
	"os"
	"sort"
	"strings"
)

type Sort string

const (
	SBool Sort = "Bool"
	SInt  Sort = "Int"
	SReal Sort = "Real"
	SStr  Sort = "Str"
	SBV64 Sort = "(_ BitVec 64)"
	SSet  Sort = "(Set Int)"
	SSlc  Sort = "Slc"
	SUnit Sort = "Unit"
)

func ArraySort(i, e Sort) Sort { return Sort("(Array " + string(i) + " " + string(e) + ")") }

func (s Sort) IsArray() bool { return strings.HasPrefix(string(s), "(Array ") }

// ElemSort returns the element sort of an array sort.
func (s Sort) ElemSort() Sort {
	str := string(s)
	if !s.IsArray() {
		panic("ElemSort of non-array " + str)
	}
	body := str[len("(Array ") : len(str)-1]
	// split the first s-expr (index sort)
	i := skipSexpr(body, 0)
	return Sort(strings.TrimSpace(body[i:]))
}

func (s Sort) IndexSort() Sort {
	str := string(s)
	body := str[len("(Array ") : len(str)-1]
	i := skipSexpr(body, 0)
	return Sort(strings.TrimSpace(body[:i]))
}

func skipSexpr(s string, i int) int {
	for i < len(s) && s[i] == ' ' {
		i++
	}
	if i < len(s) && s[i] == '(' {
		d := 0
		for ; i < len(s); i++ {
			if s[i] == '(' {
				d++
			} else if s[i] == ')' {
				d--
				if d == 0 {
					return i + 1
				}
			}
		}
		return i
	}
	for i < len(s) && s[i] != ' ' {
		i++
	}
	return i
}

type Term struct {
	Op   string
	Args []*Term
	Sort Sort
	// for quantifiers: bound variables
	Bound []*Term
	// triggers / patterns (optional)
	Pats [][]*Term
}

func (t *Term) IsLeaf() bool { return len(t.Args) == 0 && len(t.Bound) == 0 }

var (
	TTrue  = &Term{Op: "true", Sort: SBool}
	TFalse = &Term{Op: "false", Sort: SBool}
)

func Sym(name string, s Sort) *Term { return &Term{Op: name, Sort: s} }

func App(op string, s Sort, args ...*Term) *Term {
	for i, a := range args {
		if a == nil {
			panic(fmt.Sprintf("nil arg %d to %s", i, op))
		}
	}
	return &Term{Op: op, Args: args, Sort: s}
}

func IntLit(v int64) *Term { return BigLit(big.NewInt(v)) }

func BigLit(v *big.Int) *Term {
	if v.Sign() < 0 {
		return &Term{Op: "(- " + new(big.Int).Neg(v).String() + ")", Sort: SInt}
	}
	return &Term{Op: v.String(), Sort: SInt}
}

func BVLit(v *big.Int) *Term {
	m := new(big.Int).Lsh(big.NewInt(1), 64)
	x := new(big.Int).Mod(v, m)
	return &Term{Op: fmt.Sprintf("#x%016x", x), Sort: SBV64}
}

func RealLit(r *big.Rat) *Term {
	if r.IsInt() {
		n := r.Num()
		if n.Sign() < 0 {
			return &Term{Op: "(- " + new(big.Int).Neg(n).String() + ".0)", Sort: SReal}
		}
		return &Term{Op: n.String() + ".0", Sort: SReal}
	}
	n, d := r.Num(), r.Denom()
	if n.Sign() < 0 {
		return &Term{Op: "(- (/ " + new(big.Int).Neg(n).String() + ".0 " + d.String() + ".0))", Sort: SReal}
	}
	return &Term{Op: "(/ " + n.String() + ".0 " + d.String() + ".0)", Sort: SReal}
}

func (t *Term) IntVal() (*big.Int, bool) {
	if !t.IsLeaf() {
		return nil, false
	}
	switch t.Sort {
	case SInt:
		s := t.Op
		neg := false
		if strings.HasPrefix(s, "(- ") {
			neg = true
			s = s[3 : len(s)-1]
		}
		v, ok := new(big.Int).SetString(s, 10)
		if !ok {
			return nil, false
		}
		if neg {
			v.Neg(v)
		}
		return v, true
	case SBV64:
		if strings.HasPrefix(t.Op, "#x") {
			v, ok := new(big.Int).SetString(t.Op[2:], 16)
			return v, ok
		}
	}
	return nil, false
}

func IsTrue(t *Term) bool  { return t.Op == "true" && t.IsLeaf() }
func IsFalse(t *Term) bool { return t.Op == "false" && t.IsLeaf() }

func Not(a *Term) *Term {
	if IsTrue(a) {
		return TFalse
	}
	if IsFalse(a) {
		return TTrue
	}
	if a.Op == "not" && len(a.Args) == 1 {
		return a.Args[0]
	}
	return App("not", SBool, a)
}

func And(as ...*Term) *Term {
	var out []*Term
	for _, a := range as {
		if a == nil || IsTrue(a) {
			continue
		}
		if IsFalse(a) {
			return TFalse
		}
		if a.Op == "and" && len(a.Bound) == 0 {
			out = append(out, a.Args...)
			continue
		}
		out = append(out, a)
	}
	switch len(out) {
	case 0:
		return TTrue
	case 1:
		return out[0]
	}
	return App("and", SBool, out...)
}

func Or(as ...*Term) *Term {
	var out []*Term
	for _, a := range as {
		if a == nil || IsFalse(a) {
			continue
		}
		if IsTrue(a) {
			return TTrue
		}
		if a.Op == "or" && len(a.Bound) == 0 {
			out = append(out, a.Args...)
			continue
		}
		out = append(out, a)
	}
	switch len(out) {
	case 0:
		return TFalse
	case 1:
		return out[0]
	}
	return App("or", SBool, out...)
}

func Implies(a, b *Term) *Term {
	if IsTrue(a) {
		return b
	}
	if IsFalse(a) || IsTrue(b) {
		return TTrue
	}
	if IsFalse(b) {
		return Not(a)
	}
	return App("=>", SBool, a, b)
}

func sameTerm(a, b *Term) bool {
	if a == b {
		return true
	}
	if a.Op != b.Op || a.Sort != b.Sort || len(a.Args) != len(b.Args) || len(a.Bound) != 0 || len(b.Bound) != 0 {
		return false
	}
	if len(a.Args) > 4 {
		return false
	}
	for i := range a.Args {
		if !sameTerm(a.Args[i], b.Args[i]) {
			return false
		}
	}
	return true
}

func Eq(a, b *Term) *Term {
	if a.Sort != b.Sort {
		panic(fmt.Sprintf("Eq sort mismatch: %s : %s  vs  %s : %s", a.String(), a.Sort, b.String(), b.Sort))
	}
	if sameTerm(a, b) {
		return TTrue
	}
	if a.IsLeaf() && b.IsLeaf() {
		av, aok := a.IntVal()
		bv, bok := b.IntVal()
		if aok && bok {
			if av.Cmp(bv) == 0 {
				return TTrue
			}
			return TFalse
		}
		if (IsTrue(a) && IsFalse(b)) || (IsFalse(a) && IsTrue(b)) {
			return TFalse
		}
	}
	if a.Sort == SBool {
		if IsTrue(b) {
			return a
		}
		if IsTrue(a) {
			return b
		}
		if IsFalse(b) {
			return Not(a)
		}
		if IsFalse(a) {
			return Not(b)
		}
	}
	return App("=", SBool, a, b)
}

func Ite(c, a, b *Term) *Term {
	if IsTrue(c) {
		return a
	}
	if IsFalse(c) {
		return b
	}
	if sameTerm(a, b) {
		return a
	}
	if a.Sort != b.Sort {
		panic(fmt.Sprintf("Ite sort mismatch: %s:%s vs %s:%s", a, a.Sort, b, b.Sort))
	}
	if a.Sort == SBool {
		if IsTrue(a) && IsFalse(b) {
			return c
		}
		if IsFalse(a) && IsTrue(b) {
			return Not(c)
		}
	}
	return App("ite", a.Sort, c, a, b)
}

func Select(arr, idx *Term) *Term {
	if !arr.Sort.IsArray() {
		panic("select on non-array " + arr.String() + " : " + string(arr.Sort))
	}
	// select(store(a,i,v),i) = v
	if arr.Op == "store" && len(arr.Args) == 3 && sameTerm(arr.Args[1], idx) {
		return arr.Args[2]
	}
	return App("select", arr.Sort.ElemSort(), arr, idx)
}

func Store(arr, idx, val *Term) *Term {
	if !arr.Sort.IsArray() {
		panic("store on non-array " + arr.String())
	}
	if arr.Sort.ElemSort() != val.Sort {
		panic(fmt.Sprintf("store sort mismatch: array %s elem %s, value %s : %s", arr.Sort, arr.Sort.ElemSort(), val, val.Sort))
	}
	return App("store", arr.Sort, arr, idx, val)
}

func Forall(vars []*Term, body *Term) *Term {
	if IsTrue(body) {
		return TTrue
	}
	return &Term{Op: "forall", Bound: vars, Args: []*Term{body}, Sort: SBool, Pats: InferPatterns(vars, body)}
}

// ---- trigger inference ---------------------------------------------------------------------------
// Quantified facts are instantiated by E-matching on "guard" terms: array reads (select) and
// uninterpreted applications mentioning the bound variables, taken from the antecedent of an
// implication when there is one (else from the whole body). This keeps instantiation goal-directed.

var NoPatterns = os.Getenv("GOVC_NOPAT") != ""

func termSize(t *Term) int {
	n := 1
	for _, a := range t.Args {
		n += termSize(a)
	}
	return n
}

func mentions(t *Term, names map[string]bool, found map[string]bool) {
	if t.IsLeaf() {
		if names[t.Op] {
			found[t.Op] = true
		}
		return
	}
	for _, a := range t.Args {
		mentions(a, names, found)
	}
}

func hasBadOp(t *Term) bool {
	switch t.Op {
	case "ite", "and", "or", "not", "=>", "=", "forall", "exists", "<", "<=", ">", ">=", "bvslt", "bvsle", "bvsgt", "bvsge", "bvult", "bvule", "bvugt", "bvuge", "distinct":
		return true
	}
	if len(t.Bound) > 0 {
		return true
	}
	for _, a := range t.Args {
		if hasBadOp(a) {
			return true
		}
	}
	return false
}

func isTriggerHead(t *Term) bool {
	if len(t.Args) == 0 {
		return false
	}
	switch t.Op {
	case "select", "set.member", "set.subset":
		return true
	}
	// uninterpreted function applications (names with a dot or "uf"/"spec" prefixes)
	if strings.HasPrefix(t.Op, "uf.") || strings.HasPrefix(t.Op, "ufi.") || strings.HasPrefix(t.Op, "spec.") || t.Op == "strcat" || t.Op == "strlen" || t.Op == "typeof" || strings.HasPrefix(t.Op, "unbox.") || strings.HasPrefix(t.Op, "implements.") {
		return true
	}
	return false
}

func InferPatterns(vars []*Term, body *Term) [][]*Term {
	if NoPatterns || len(vars) == 0 {
		return nil
	}
	names := map[string]bool{}
	for _, v := range vars {
		names[v.Op] = true
	}
	type cand struct {
		t    *Term
		vars map[string]bool
		size int
		key  string
	}
	collect := func(root *Term) []*cand {
		var out []*cand
		seen := map[string]bool{}
		var walk func(t *Term)
		walk = func(t *Term) {
			if len(t.Bound) > 0 {
				return // do not look into nested quantifiers
			}
			if isTriggerHead(t) && !hasBadOp(t) {
				f := map[string]bool{}
				mentions(t, names, f)
				if len(f) > 0 {
					k := t.String()
					if !seen[k] {
						seen[k] = true
						out = append(out, &cand{t, f, termSize(t), k})
					}
				}
			}
			for _, a := range t.Args {
				walk(a)
			}
		}
		walk(root)
		sort.SliceStable(out, func(i, j int) bool { return out[i].size < out[j].size })
		return out
	}
	var cands []*cand
	if body.Op == "=>" && len(body.Args) == 2 {
		cands = collect(body.Args[0])
		covered := map[string]bool{}
		for _, c := range cands {
			for v := range c.vars {
				covered[v] = true
			}
		}
		if len(covered) < len(names) {
			cands = append(cands, collect(body.Args[1])...)
		}
	} else {
		cands = collect(body)
	}
	if len(cands) == 0 {
		return nil
	}
	// drop candidates that strictly contain a smaller candidate with the same variable set (prefer the small guards)
	var pats [][]*Term
	// single terms covering all variables
	for _, c := range cands {
		if len(c.vars) == len(names) {
			dominated := false
			for _, p := range pats {
				if strings.Contains(c.key, p[0].String()) {
					dominated = true
				}
			}
			if !dominated {
				pats = append(pats, []*Term{c.t})
			}
			if len(pats) >= 4 {
				break
			}
		}
	}
	if len(pats) > 0 {
		return pats
	}
	// greedy multi-pattern
	need := map[string]bool{}
	for n := range names {
		need[n] = true
	}
	var multi []*Term
	for len(need) > 0 {
		var best *cand
		bestGain := 0
		for _, c := range cands {
			g := 0
			for v := range c.vars {
				if need[v] {
					g++
				}
			}
			if g > bestGain || (g == bestGain && g > 0 && best != nil && c.size < best.size) {
				best, bestGain = c, g
			}
		}
		if best == nil || bestGain == 0 {
			return nil
		}
		multi = append(multi, best.t)
		for v := range best.vars {
			delete(need, v)
		}
	}
	return [][]*Term{multi}
}

func Exists(vars []*Term, body *Term) *Term {
	if IsFalse(body) {
		return TFalse
	}
	return &Term{Op: "exists", Bound: vars, Args: []*Term{body}, Sort: SBool}
}

func (t *Term) String() string {
	var sb strings.Builder
	t.write(&sb)
	return sb.String()
}

func (t *Term) write(sb *strings.Builder) {
	if len(t.Bound) > 0 {
		sb.WriteString("(" + t.Op + " (")
		for _, v := range t.Bound {
			sb.WriteString("(" + v.Op + " " + string(v.Sort) + ")")
		}
		sb.WriteString(") ")
		if len(t.Pats) > 0 {
			sb.WriteString("(! ")
		}
		t.Args[0].write(sb)
		for _, p := range t.Pats {
			sb.WriteString(" :pattern (")
			for i, pt := range p {
				if i > 0 {
					sb.WriteString(" ")
				}
				pt.write(sb)
			}
			sb.WriteString(")")
		}
		if len(t.Pats) > 0 {
			sb.WriteString(")")
		}
		sb.WriteString(")")
		return
	}
	if len(t.Args) == 0 {
		sb.WriteString(t.Op)
		return
	}
	sb.WriteString("(" + t.Op)
	for _, a := range t.Args {
		sb.WriteString(" ")
		a.write(sb)
	}
	sb.WriteString(")")
}

// usesSets reports whether the term mentions the native set theory.
func sortUsesSets(s Sort) bool { return strings.Contains(string(s), "(Set ") }

// substitute replaces leaf symbols by terms (used for quantifier instantiation and macros)
func Subst(t *Term, m map[string]*Term) *Term {
	if len(m) == 0 {
		return t
	}
	if t.IsLeaf() {
		if r, ok := m[t.Op]; ok {
			return r
		}
		return t
	}
	if len(t.Bound) > 0 {
		m2 := map[string]*Term{}
		for k, v := range m {
			m2[k] = v
		}
		for _, b := range t.Bound {
			delete(m2, b.Op)
		}
		nt := *t
		nt.Args = []*Term{Subst(t.Args[0], m2)}
		if len(t.Pats) > 0 {
			nt.Pats = nil
			for _, p := range t.Pats {
				var np []*Term
				for _, x := range p {
					np = append(np, Subst(x, m2))
				}
				nt.Pats = append(nt.Pats, np)
			}
		}
		return &nt
	}
	changed := false
	args := make([]*Term, len(t.Args))
	for i, a := range t.Args {
		args[i] = Subst(a, m)
		if args[i] != a {
			changed = true
		}
	}
	if !changed {
		return t
	}
	nt := *t
	nt.Args = args
	return &nt
}

func sortedKeys[V any](m map[string]V) []string {
	ks := make([]string, 0, len(m))
	for k := range m {
		ks = append(ks, k)
	}
	sort.Strings(ks)
	return ks
}
