package main

import (
	"bufio"
	"fmt"
	"go/token"
	"go/types"
	"os"
	"path/filepath"
	"sort"
	"strings"

	"golang.org/x/tools/go/packages"
	"golang.org/x/tools/go/ssa"
	"golang.org/x/tools/go/ssa/ssautil"
)

type effect int

const (
	effUnknown effect = iota
	effPure           // no heap effect, deterministic in its arguments
	effNoop           // no effect on tracked state (logging, metrics), results irrelevant
)

type Engine struct {
	prog     *ssa.Program
	fset     *token.FileSet
	pkgs     map[string]*packages.Package
	spkgs    map[string]*ssa.Package
	cs       *ContractSet
	inlineOK map[string]bool
	srcCache map[string][]string
	implIdx  map[string][]*types.Named
	nnGlobals map[*ssa.Global]int
	fnGlobals map[*ssa.Global]*ssa.Function
	repo     string
}

func LoadEngine(repo string, patterns []string, tags string) (*Engine, error) {
	cfg := &packages.Config{Mode: packages.LoadAllSyntax, Dir: repo, BuildFlags: []string{"-tags=" + tags}, Tests: false,
		Env: append(os.Environ(), "GOFLAGS=-mod=mod", "GOPROXY=off", "GOSUMDB=off", "GOTOOLCHAIN=local")}
	pkgs, err := packages.Load(cfg, patterns...)
	if err != nil {
		return nil, err
	}
	var errs []string
	packages.Visit(pkgs, nil, func(p *packages.Package) {
		for _, e := range p.Errors {
			if strings.HasPrefix(p.PkgPath, modulePath) {
				errs = append(errs, e.Error())
			}
		}
	})
	if len(errs) > 0 {
		return nil, fmt.Errorf("package errors:\n%s", strings.Join(errs, "\n"))
	}
	prog, _ := ssautil.AllPackages(pkgs, ssa.InstantiateGenerics|ssa.GlobalDebug)
	prog.Build()
	eng := &Engine{prog: prog, fset: prog.Fset, pkgs: map[string]*packages.Package{}, spkgs: map[string]*ssa.Package{}, cs: NewContractSet(), inlineOK: map[string]bool{"io/fs": true, "github.com/containerd/nri/pkg/api": true}, srcCache: map[string][]string{}, repo: repo}
	packages.Visit(pkgs, nil, func(p *packages.Package) {
		eng.pkgs[p.PkgPath] = p
	})
	for _, sp := range prog.AllPackages() {
		eng.spkgs[sp.Pkg.Path()] = sp
	}
	return eng, nil
}

// LoadContracts reads verif_contracts*.go files of the loaded module packages and /verif/specs.
func (eng *Engine) LoadContracts(specDir string) error {
	var paths []string
	for path, p := range eng.pkgs {
		if !strings.HasPrefix(path, modulePath) {
			continue
		}
		_ = p
		paths = append(paths, path)
	}
	sort.Strings(paths)
	for _, path := range paths {
		p := eng.pkgs[path]
		dir := ""
		for _, f := range p.GoFiles {
			dir = filepath.Dir(f)
			break
		}
		if dir == "" {
			continue
		}
		ms, _ := filepath.Glob(filepath.Join(dir, "verif_contracts*.go"))
		sort.Strings(ms)
		for _, m := range ms {
			if err := eng.cs.LoadFile(m, path, false); err != nil {
				return err
			}
		}
	}
	if specDir != "" {
		ms, _ := filepath.Glob(filepath.Join(specDir, "*.spec"))
		sort.Strings(ms)
		for _, m := range ms {
			// the package a spec file speaks about is given by a "//@ package <path>" line; default: none
			pkg := specPackage(m)
			if err := eng.cs.LoadFile(m, pkg, true); err != nil {
				return err
			}
		}
	}
	return nil
}

func specPackage(path string) string {
	f, err := os.Open(path)
	if err != nil {
		return ""
	}
	defer f.Close()
	sc := bufio.NewScanner(f)
	for sc.Scan() {
		t := strings.TrimSpace(sc.Text())
		if strings.HasPrefix(t, "// package ") {
			return strings.TrimSpace(t[len("// package "):])
		}
	}
	return ""
}

func (eng *Engine) sourceLine(file string, line int) string {
	ls, ok := eng.srcCache[file]
	if !ok {
		data, err := os.ReadFile(file)
		if err == nil {
			ls = strings.Split(string(data), "\n")
		}
		eng.srcCache[file] = ls
	}
	if line-1 >= 0 && line-1 < len(ls) {
		return ls[line-1]
	}
	return ""
}

func (eng *Engine) typesPkg(path string) *types.Package {
	if p, ok := eng.pkgs[path]; ok {
		return p.Types
	}
	return nil
}

func (eng *Engine) importedPkg(pkg *types.Package, name string) *types.Package {
	if pkg == nil {
		return nil
	}
	for _, imp := range pkg.Imports() {
		if imp.Name() == name {
			return imp
		}
	}
	// import aliases: search the syntax of the package
	if pp, ok := eng.pkgs[pkg.Path()]; ok {
		for _, f := range pp.Syntax {
			for _, is := range f.Imports {
				if is.Name != nil && is.Name.Name == name {
					path := strings.Trim(is.Path.Value, "\"")
					if ip, ok := eng.pkgs[path]; ok {
						return ip.Types
					}
				}
			}
		}
	}
	// any loaded package with that name (for spec files speaking about several packages)
	if name == "cpuset" {
		if ip, ok := eng.pkgs["k8s.io/utils/cpuset"]; ok {
			return ip.Types
		}
	}
	return nil
}

func (eng *Engine) cpusetType() types.Type {
	if ip, ok := eng.pkgs["k8s.io/utils/cpuset"]; ok {
		return ip.Types.Scope().Lookup("CPUSet").Type()
	}
	return nil
}

// parseType resolves a small type-expression language: *T, []T, map[K]V, pkg.T, T, basic names.
func (eng *Engine) parseType(pkg *types.Package, s string) types.Type {
	s = strings.TrimSpace(s)
	switch {
	case s == "":
		return nil
	case s == "unit":
		// the empty struct type `struct{}` (braces are not spec tokens)
		return types.NewStruct(nil, nil)
	case strings.HasPrefix(s, "*"):
		t := eng.parseType(pkg, s[1:])
		if t == nil {
			return nil
		}
		return types.NewPointer(t)
	case strings.HasPrefix(s, "[]"):
		t := eng.parseType(pkg, s[2:])
		if t == nil {
			return nil
		}
		return types.NewSlice(t)
	case strings.HasPrefix(s, "arr["):
		depth := 0
		for i := 3; i < len(s); i++ {
			if s[i] == '[' {
				depth++
			} else if s[i] == ']' {
				depth--
				if depth == 0 {
					k := eng.parseType(pkg, s[4:i])
					v := eng.parseType(pkg, s[i+1:])
					if k == nil || v == nil {
						return nil
					}
					return &SpecArr{k, v}
				}
			}
		}
		return nil
	case strings.HasPrefix(s, "map["):
		depth := 0
		for i := 3; i < len(s); i++ {
			if s[i] == '[' {
				depth++
			} else if s[i] == ']' {
				depth--
				if depth == 0 {
					k := eng.parseType(pkg, s[4:i])
					v := eng.parseType(pkg, s[i+1:])
					if k == nil || v == nil {
						return nil
					}
					return types.NewMap(k, v)
				}
			}
		}
		return nil
	}
	if i := strings.Index(s, "."); i >= 0 {
		p := eng.importedPkg(pkg, s[:i])
		if p == nil {
			return nil
		}
		if tn, ok := p.Scope().Lookup(s[i+1:]).(*types.TypeName); ok {
			return tn.Type()
		}
		return nil
	}
	if pkg != nil {
		if tn, ok := pkg.Scope().Lookup(s).(*types.TypeName); ok {
			return tn.Type()
		}
	}
	if tn, ok := types.Universe.Lookup(s).(*types.TypeName); ok {
		return tn.Type()
	}
	return nil
}

func (eng *Engine) globalOf(v *types.Var) *ssa.Global {
	if v.Pkg() == nil {
		return nil
	}
	sp := eng.spkgs[v.Pkg().Path()]
	if sp == nil {
		return nil
	}
	g, _ := sp.Members[v.Name()].(*ssa.Global)
	return g
}

func (eng *Engine) lookupPure(pkg *types.Package, name string) *PureFunc {
	if pkg != nil {
		if pf, ok := eng.cs.Pures[pkg.Path()+"."+name]; ok {
			return pf
		}
	}
	if pf, ok := eng.cs.Pures["."+name]; ok {
		return pf
	}
	return nil
}

// FindFunc resolves a contract's function name inside a package.
func (eng *Engine) FindFunc(pkgPath, name string) *ssa.Function {
	sp := eng.spkgs[pkgPath]
	if sp == nil {
		return nil
	}
	// closures: outer$1
	base := name
	var closurePath []string
	if i := strings.Index(name, "$"); i >= 0 {
		base = name[:i]
		closurePath = strings.Split(name[i+1:], "$")
	}
	var fn *ssa.Function
	if strings.HasPrefix(base, "(") {
		// (*T).m or (T).m
		end := strings.Index(base, ")")
		recv := base[1:end]
		meth := base[end+2:]
		ptr := strings.HasPrefix(recv, "*")
		recv = strings.TrimPrefix(recv, "*")
		tn, ok := sp.Pkg.Scope().Lookup(recv).(*types.TypeName)
		if !ok {
			return nil
		}
		var t types.Type = tn.Type()
		if ptr {
			t = types.NewPointer(t)
		}
		sel := eng.prog.MethodSets.MethodSet(t).Lookup(sp.Pkg, meth)
		if sel == nil {
			return nil
		}
		fn = eng.prog.MethodValue(sel)
	} else {
		fn = sp.Func(base)
	}
	if fn == nil {
		return nil
	}
	for _, c := range closurePath {
		var next *ssa.Function
		for _, af := range fn.AnonFuncs {
			if af.Name() == fn.Name()+"$"+c {
				next = af
			}
		}
		if next == nil {
			return nil
		}
		fn = next
	}
	return fn
}

// ---- effect classification of code outside the verified subset ---------------------------------------------

var noopPkgs = []string{
	"github.com/containers/nri-plugins/pkg/log",
	"github.com/sirupsen/logrus",
	"log", "log/slog",
	"github.com/prometheus/",
	"go.opentelemetry.io/",
	"github.com/containers/nri-plugins/pkg/instrumentation",
	"github.com/containers/nri-plugins/pkg/metrics",
}

var purePkgs = []string{
	"fmt", "errors", "strings", "strconv", "path", "path/filepath", "math", "math/bits", "unicode", "unicode/utf8", "time", "regexp", "bytes",
	"sigs.k8s.io/yaml", "encoding/json", "k8s.io/apimachinery/pkg/api/resource",
}

var pureFilepathExcept = map[string]bool{"path/filepath.Walk": true, "path/filepath.WalkDir": true, "path/filepath.Glob": true, "path/filepath.EvalSymlinks": true, "path/filepath.Abs": true}

func (eng *Engine) effectOf(fn *ssa.Function) effect {
	p := fn
	for p.Parent() != nil {
		p = p.Parent()
	}
	name := fn.String()
	if e, ok := effectTable[name]; ok {
		return e
	}
	if d, ok := eng.cs.Effects[funcKey(fn)]; ok {
		if d == "pure" {
			return effPure
		}
		return effNoop
	}
	var path string
	if p.Pkg != nil {
		path = p.Pkg.Pkg.Path()
	} else if recv := fn.Signature.Recv(); recv != nil {
		if n, ok := derefNamed(recv.Type()).(*types.Named); ok && n.Obj().Pkg() != nil {
			path = n.Obj().Pkg().Path()
		}
	} else if o := fn.Object(); o != nil && o.Pkg() != nil {
		path = o.Pkg().Path()
	}
	for _, np := range noopPkgs {
		if path == np || strings.HasPrefix(path, np) && (strings.HasSuffix(np, "/") || strings.HasPrefix(path, np+"/")) {
			return effNoop
		}
	}
	if pureFilepathExcept[name] {
		return effUnknown
	}
	for _, pp := range purePkgs {
		if path == pp {
			if path == "encoding/json" || path == "sigs.k8s.io/yaml" {
				// Unmarshal writes through its pointer argument: not pure
				if strings.Contains(fn.Name(), "Unmarshal") || strings.Contains(fn.Name(), "Decode") {
					return effUnknown
				}
			}
			return effPure
		}
	}
	// formatting / description methods anywhere
	switch fn.Name() {
	case "String", "Error", "GoString", "PrettyName":
		if fn.Signature.Params().Len() == 0 {
			return effPure
		}
	}
	return effUnknown
}

var effectTable = map[string]effect{}

func (eng *Engine) ifaceEffect(t types.Type, method string) effect {
	if n, ok := t.(*types.Named); ok {
		if n.Obj().Pkg() == nil {
			if n.Obj().Name() == "error" {
				return effPure
			}
			return effUnknown
		}
		path := n.Obj().Pkg().Path()
		for _, np := range noopPkgs {
			if path == np || strings.HasPrefix(path, np) {
				return effNoop
			}
		}
		if e, ok := ifaceEffectTable[path+"."+n.Obj().Name()+"."+method]; ok {
			return e
		}
		if path == "fmt" {
			return effPure
		}
	}
	switch method {
	case "String", "Error", "GoString", "PrettyName":
		return effPure
	}
	return effUnknown
}

var ifaceEffectTable = map[string]effect{}

// uniqueImpl: if exactly one concrete type in the module implements the interface, return its method.
func (eng *Engine) uniqueImpl(it types.Type, m *types.Func) *ssa.Function {
	return eng.uniqueImplByName(it, m.Name())
}

func (eng *Engine) uniqueImplByName(it types.Type, method string) *ssa.Function {
	iface, ok := it.Underlying().(*types.Interface)
	if !ok || iface.NumMethods() == 0 {
		return nil
	}
	n, ok := it.(*types.Named)
	if !ok || n.Obj().Pkg() == nil || !strings.HasPrefix(n.Obj().Pkg().Path(), modulePath) {
		return nil
	}
	key := n.Obj().Pkg().Path() + "." + n.Obj().Name()
	impls, ok := eng.implIdx[key]
	if !ok {
		if eng.implIdx == nil {
			eng.implIdx = map[string][]*types.Named{}
		}
		for path, p := range eng.pkgs {
			if !strings.HasPrefix(path, modulePath) {
				continue
			}
			sc := p.Types.Scope()
			for _, name := range sc.Names() {
				tn, ok := sc.Lookup(name).(*types.TypeName)
				if !ok || tn.IsAlias() {
					continue
				}
				nt, ok := tn.Type().(*types.Named)
				if !ok {
					continue
				}
				if _, isIface := nt.Underlying().(*types.Interface); isIface {
					continue
				}
				if types.Implements(nt, iface) || types.Implements(types.NewPointer(nt), iface) {
					impls = append(impls, nt)
				}
			}
		}
		eng.implIdx[key] = impls
	}
	if len(impls) != 1 {
		return nil
	}
	nt := impls[0]
	var recv types.Type = nt
	if !types.Implements(nt, iface) {
		recv = types.NewPointer(nt)
	}
	sel := eng.prog.MethodSets.MethodSet(recv).Lookup(nt.Obj().Pkg(), method)
	if sel == nil {
		return nil
	}
	return eng.prog.MethodValue(sel)
}

// nonNilGlobal: package-level error sentinels that are initialised once (errors.New / fmt.Errorf in the
// package initialiser) and never assigned anywhere else in the loaded program.
func (eng *Engine) nonNilGlobal(g *ssa.Global) bool {
	if eng.nnGlobals == nil {
		eng.nnGlobals = map[*ssa.Global]int{} // 1: only good init stores, 2: disqualified
		for fn := range ssautil.AllFunctions(eng.prog) {
			for _, b := range fn.Blocks {
				for _, in := range b.Instrs {
					st, ok := in.(*ssa.Store)
					if !ok {
						continue
					}
					gl, ok := st.Addr.(*ssa.Global)
					if !ok {
						continue
					}
					good := false
					if fn.Name() == "init" && fn.Synthetic != "" {
						if c, ok := st.Val.(*ssa.Call); ok {
							if callee := c.Call.StaticCallee(); callee != nil {
								switch callee.String() {
								case "errors.New", "fmt.Errorf":
									good = true
								}
							}
						}
					}
					if good && eng.nnGlobals[gl] != 2 {
						eng.nnGlobals[gl] = 1
					} else {
						eng.nnGlobals[gl] = 2
					}
				}
			}
		}
	}
	return eng.nnGlobals[g] == 1
}

// constFuncGlobal: a package-level variable of function type that is assigned exactly once, in the
// package initialiser, with a function (e.g. `var SharesToMilliCPU = kubernetes.SharesToMilliCPU`).
func (eng *Engine) constFuncGlobal(g *ssa.Global) *ssa.Function {
	if eng.fnGlobals == nil {
		eng.fnGlobals = map[*ssa.Global]*ssa.Function{}
		bad := map[*ssa.Global]bool{}
		for fn := range ssautil.AllFunctions(eng.prog) {
			for _, b := range fn.Blocks {
				for _, in := range b.Instrs {
					st, ok := in.(*ssa.Store)
					if !ok {
						continue
					}
					gl, ok := st.Addr.(*ssa.Global)
					if !ok {
						continue
					}
					if _, isSig := derefType(gl.Type()).Underlying().(*types.Signature); !isSig {
						continue
					}
					f, isFn := st.Val.(*ssa.Function)
					if fn.Name() == "init" && fn.Synthetic != "" && isFn && eng.fnGlobals[gl] == nil && !bad[gl] {
						eng.fnGlobals[gl] = f
					} else {
						bad[gl] = true
						delete(eng.fnGlobals, gl)
					}
				}
			}
		}
	}
	return eng.fnGlobals[g]
}

func (eng *Engine) inferredMods(ex *Exec, fn *ssa.Function) *modSet {
	ms := newModSet()
	if fn == nil || len(fn.Blocks) == 0 {
		return ms
	}
	if ex.inferBusy == nil {
		ex.inferBusy = map[*ssa.Function]bool{}
	}
	if ex.inferBusy[fn] {
		// a (mutually) recursive call while the function's own effects are being collected: it writes
		// nothing beyond what the enclosing scan of its body collects (least fixpoint)
		return ms
	}
	ex.inferBusy[fn] = true
	defer delete(ex.inferBusy, fn)
	ex.scanFunc(fn, nil, nil, ms, 0, map[*ssa.Function]bool{})
	return ms
}
