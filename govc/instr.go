package main

import (
	"fmt"
	"go/token"
	"go/types"
	"math/big"

	"golang.org/x/tools/go/ssa"
)

// step executes one non-terminator instruction; returns the reach condition after it.
func (ex *Exec) step(fr *frame, st *State, reach *Term, instr ssa.Instruction, exits *[]*exit) *Term {
	vc := ex.vc
	ex.curReach = reach
	bind := func(v ssa.Value, val Value) {
		if t, ok := val.(*Term); ok && len(t.Args) > 0 {
			val = vc.Def(fr.fn.Name()+"."+v.Name(), t)
		}
		fr.env[v] = val
	}
	switch in := instr.(type) {
	case *ssa.DebugRef:
		return reach
	case *ssa.Alloc:
		t := derefType(in.Type())
		r := ex.freshRef(st, reach, in.Comment)
		ex.zeroInit(st, r, t)
		fr.env[in] = r
	case *ssa.BinOp:
		bind(in, ex.binop(fr, st, reach, in))
	case *ssa.UnOp:
		switch in.Op {
		case token.MUL:
			if g, isG := in.X.(*ssa.Global); isG {
				if f := ex.eng.constFuncGlobal(g); f != nil {
					fr.env[in] = &FuncVal{fn: f}
					return reach
				}
			}
			p := ex.operand(fr, in.X)
			ex.derefCheck(fr, st, &reach, p, in, "load")
			v := ex.load(st, p, in.Type())
			if t, ok := v.(*Term); ok && t.IsLeaf() && ex.funcVals[t.Op] != nil {
				fr.env[in] = t
				return reach
			}
			if t, ok := v.(*Term); ok {
				t = vc.Def(fr.fn.Name()+"."+in.Name(), t)
				ex.assumeAlive(st, reach, t, in.Type())
				if g, isG := in.X.(*ssa.Global); isG && t.Sort == SInt && ex.eng.nonNilGlobal(g) {
					vc.Assume(reach, Not(Eq(t, IntLit(0))))
					vc.note("package-level error sentinels initialised by errors.New/fmt.Errorf and never reassigned are non-nil")
				}
				v = t
			}
			fr.env[in] = v
		case token.NOT:
			bind(in, Not(ex.term(fr, in.X)))
		case token.SUB:
			x := ex.term(fr, in.X)
			if x.Sort == SReal {
				bind(in, App("-", SReal, x))
			} else {
				bind(in, vc.Arith("-", vc.IntConst(0), x, in.Type()))
			}
		case token.XOR:
			x := ex.term(fr, in.X)
			if vc.mode != ModeBV {
				ex.unsupportedAt(in, "bitwise complement in math mode")
			}
			bind(in, App("bvnot", SBV64, x))
		case token.ARROW:
			// channel receive: an arbitrary value of the element type arrives (or the receive blocks forever and
			// the path ends). Sound for the per-function, single-threaded properties proved here; nothing is
			// claimed about who sends. The comma-ok form yields an arbitrary ok as well.
			vc.note("channel receive modelled as an arbitrary value of the element type (no claim about the sender)")
			ct, _ := types.Unalias(in.X.Type()).Underlying().(*types.Chan)
			if ct == nil {
				ex.unsupportedAt(in, "receive from non-channel")
			}
			v := ex.freshValueOfType(st, reach, fr.fn.Name()+"."+in.Name()+".recv", ct.Elem())
			if in.CommaOk {
				fr.env[in] = Tuple{v, vc.FreshConst(fr.fn.Name()+"."+in.Name()+".ok", SBool)}
			} else {
				fr.env[in] = v
			}
		default:
			ex.unsupportedAt(in, "unary op "+in.Op.String())
		}
	case *ssa.Store:
		p := ex.operand(fr, in.Addr)
		ex.derefCheck(fr, st, &reach, p, in, "store")
		ex.store(st, p, derefType(in.Addr.Type()), ex.operand(fr, in.Val))
	case *ssa.FieldAddr:
		base := ex.operand(fr, in.X)
		stT := derefType(in.X.Type())
		switch b := base.(type) {
		case *Term:
			ex.derefCheck(fr, st, &reach, b, in, "field")
			c, cs, ft := ex.fieldComp(stT, in.Field)
			fr.env[in] = &Addr{comp: c, compSort: cs, idx: []*Term{b}, typ: ft}
		case *Addr:
			su := stT.Underlying().(*types.Struct)
			na := *b
			na.path = append(append([]pathElem{}, b.path...), pathElem{structSort: vc.SortOf(stT), structT: su, field: in.Field})
			na.typ = su.Field(in.Field).Type()
			fr.env[in] = &na
		default:
			ex.unsupportedAt(in, fmt.Sprintf("field address of %T", base))
		}
	case *ssa.Field:
		x := ex.term(fr, in.X)
		su := in.X.Type().Underlying().(*types.Struct)
		f := su.Field(in.Field)
		if x.Op == "mk_"+string(x.Sort) {
			bind(in, x.Args[in.Field])
		} else {
			bind(in, vc.StructSel(x.Sort, f.Name(), x, vc.SortOf(f.Type())))
		}
	case *ssa.IndexAddr:
		idx := ex.term(fr, in.Index)
		idx = ex.toInt(idx, in.Index.Type())
		switch xt := types.Unalias(in.X.Type()).Underlying().(type) {
		case *types.Slice:
			s := ex.term(fr, in.X)
			ex.boundsCheck(fr, st, &reach, idx, vc.SliceLen(s), in)
			c, cs := ex.sliceComp(xt.Elem())
			fr.env[in] = &Addr{comp: c, compSort: cs, idx: []*Term{vc.SlicePtr(s), vc.Arith("+", vc.SliceOff(s), idx, types.Typ[types.Int])}, typ: xt.Elem(), sliceOff: vc.SliceOff(s), sliceIdx: idx}
		case *types.Pointer:
			arr := xt.Elem().Underlying().(*types.Array)
			if ba, isAddr := ex.operand(fr, in.X).(*Addr); isAddr {
				// an array inside a struct (interior address): extend the path by an element selection
				ex.boundsCheck(fr, st, &reach, idx, vc.IntConst(arr.Len()), in)
				na := *ba
				na.path = append(append([]pathElem{}, ba.path...), pathElem{index: idx})
				na.typ = arr.Elem()
				fr.env[in] = &na
				return reach
			}
			r := ex.term(fr, in.X)
			ex.boundsCheck(fr, st, &reach, idx, vc.IntConst(arr.Len()), in)
			c, cs := ex.sliceComp(arr.Elem())
			fr.env[in] = &Addr{comp: c, compSort: cs, idx: []*Term{r, idx}, typ: arr.Elem()}
		default:
			ex.unsupportedAt(in, "IndexAddr on "+in.X.Type().String())
		}
	case *ssa.Index:
		switch xt := types.Unalias(in.X.Type()).Underlying().(type) {
		case *types.Array:
			a := ex.term(fr, in.X)
			idx := ex.toInt(ex.term(fr, in.Index), in.Index.Type())
			ex.boundsCheck(fr, st, &reach, idx, vc.IntConst(xt.Len()), in)
			bind(in, Select(a, idx))
		case *types.Basic: // string indexing
			s := ex.term(fr, in.X)
			idx := ex.toInt(ex.term(fr, in.Index), in.Index.Type())
			vc.declare("strat", fmt.Sprintf("(declare-fun strat (Str %s) %s)", vc.IntSort(), vc.IntSort()))
			ex.boundsCheck(fr, st, &reach, idx, ex.strLen(s), in)
			bind(in, App("strat", vc.IntSort(), s, idx))
		default:
			ex.unsupportedAt(in, "Index on "+in.X.Type().String())
		}
	case *ssa.Lookup:
		ex.lookup(fr, st, reach, in)
	case *ssa.MapUpdate:
		m := ex.term(fr, in.Map)
		mt := types.Unalias(in.Map.Type()).Underlying().(*types.Map)
		if ex.safety {
			ex.safeOblige(fr, reach, Not(Eq(m, IntLit(0))), "nilmap", in)
		}
		vc.Assume(reach, Not(Eq(m, IntLit(0))))
		ex.mapStore(st, mt, m, ex.term(fr, in.Key), ex.term(fr, in.Value))
	case *ssa.MakeMap:
		mt := types.Unalias(in.Type()).Underlying().(*types.Map)
		r := ex.freshRef(st, reach, "map")
		d, v, l, ks, vs := ex.mapComps(mt)
		dc := ex.comp(st, d, ArraySort(SInt, ArraySort(ks, SBool)))
		ex.setComp(st, d, Store(dc, r, App("(as const "+string(ArraySort(ks, SBool))+")", ArraySort(ks, SBool), TFalse)))
		lc := ex.comp(st, l, ArraySort(SInt, vc.IntSort()))
		ex.setComp(st, l, Store(lc, r, vc.IntConst(0)))
		// value array: zero default (a lookup of a missing key yields the zero value)
		vcmp := ex.comp(st, v, ArraySort(SInt, ArraySort(ks, vs)))
		ex.setComp(st, v, Store(vcmp, r, App("(as const "+string(ArraySort(ks, vs))+")", ArraySort(ks, vs), vc.Zero(mt.Elem()))))
		fr.env[in] = r
	case *ssa.MakeSlice:
		et := types.Unalias(in.Type()).Underlying().(*types.Slice).Elem()
		r := ex.freshRef(st, reach, "slice")
		c, cs := ex.sliceComp(et)
		arrS := cs.ElemSort()
		ex.setComp(st, c, Store(ex.comp(st, c, cs), r, App("(as const "+string(arrS)+")", arrS, vc.Zero(et))))
		ln := ex.toInt(ex.term(fr, in.Len), in.Len.Type())
		cp := ex.toInt(ex.term(fr, in.Cap), in.Cap.Type())
		bind(in, vc.MkSlice(r, vc.IntConst(0), ln, cp))
	case *ssa.Slice:
		ex.sliceOp(fr, st, &reach, in)
	case *ssa.Convert:
		bind(in, ex.convert(fr, st, reach, in))
	case *ssa.ChangeType:
		fr.env[in] = ex.operand(fr, in.X)
	case *ssa.ChangeInterface:
		fr.env[in] = ex.operand(fr, in.X)
	case *ssa.MakeInterface:
		fr.env[in] = ex.makeInterface(fr, st, reach, in)
	case *ssa.TypeAssert:
		ex.typeAssert(fr, st, &reach, in)
	case *ssa.Extract:
		tup, ok := ex.operand(fr, in.Tuple).(Tuple)
		if !ok {
			ex.unsupportedAt(in, "extract from non-tuple")
		}
		fr.env[in] = tup[in.Index]
	case *ssa.MakeClosure:
		var bs []Value
		for _, b := range in.Bindings {
			bs = append(bs, ex.operand(fr, b))
		}
		fr.env[in] = &Closure{fn: in.Fn.(*ssa.Function), bindings: bs}
	case *ssa.Call:
		res, nreach := ex.call(fr, st, reach, &in.Call, in, exits)
		reach = nreach
		if res != nil {
			if t, ok := res.(*Term); ok && len(t.Args) > 0 {
				res = vc.Def(fr.fn.Name()+"."+in.Name(), t)
			}
			fr.env[in] = res
		} else {
			fr.env[in] = Tuple{}
		}
	case *ssa.Defer:
		var args []Value
		for _, a := range in.Call.Args {
			args = append(args, ex.operand(fr, a))
		}
		var fnv Value
		if !in.Call.IsInvoke() {
			fnv = ex.operand(fr, in.Call.Value)
		} else {
			fnv = ex.operand(fr, in.Call.Value)
		}
		fr.defers = append(fr.defers, deferred{call: &in.Call, args: args, fnv: fnv, reach: reach, instr: in})
	case *ssa.RunDefers:
		for i := len(fr.defers) - 1; i >= 0; i-- {
			d := fr.defers[i]
			// a defer pushed conditionally runs only if its push was reached
			sub := st.clone()
			r2 := And(reach, d.reach)
			_, nr := ex.callWithValues(fr, sub, r2, d.call, d.fnv, d.args, d.instr, exits)
			// merge: if d.reach held the call ran
			if !IsTrue(d.reach) && !sameTerm(d.reach, reach) {
				skip := And(reach, Not(d.reach))
				merged := ex.mergeStates(sub, func(i int) (*Term, *State) {
					if i == 0 {
						return nr, sub
					}
					return skip, st
				}, 2)
				*st = *merged
				reach = vc.Def("reach.defer", Or(nr, skip))
			} else {
				*st = *sub
				reach = nr
			}
		}
	case *ssa.Range:
		ex.rangeInit(fr, st, reach, in)
	case *ssa.Next:
		ex.rangeNext(fr, st, reach, in)
	case *ssa.MakeChan:
		// a channel is an opaque, freshly allocated, non-nil reference (no buffer, no contents)
		r := ex.freshRef(st, reach, "chan")
		ex.setComp(st, chanClosedComp, Store(ex.comp(st, chanClosedComp, aliveSort), r, TFalse))
		fr.env[in] = r
	case *ssa.Go:
		// Two schedules of the spawned goroutine are followed: it has run to completion at the spawn point, or it
		// has not run at all yet (and does not until the spawning function returns). Other interleavings, and
		// everything the goroutine does later, are outside the sequential model.
		vc.note("go statement: the goroutine either ran to completion at the spawn point or has not started (two schedules; other interleavings are outside the model)")
		if in.Call.IsInvoke() {
			ex.unsupportedAt(in, "go statement on an interface method")
		}
		var args []Value
		for _, a := range in.Call.Args {
			args = append(args, ex.operand(fr, a))
		}
		fnv := ex.operand(fr, in.Call.Value)
		ran := vc.FreshConst(fr.fn.Name()+".go.ran", SBool)
		sub := st.clone()
		_, nr := ex.callWithValues(fr, sub, And(reach, ran), &in.Call, fnv, args, in, exits)
		skip := And(reach, Not(ran))
		merged := ex.mergeStates(sub, func(i int) (*Term, *State) {
			if i == 0 {
				return nr, sub
			}
			return skip, st
		}, 2)
		*st = *merged
		reach = vc.Def("reach.go", Or(nr, skip))
	case *ssa.Send:
		// a send has no effect in the sequential model (channels carry no contents; blocking is not modelled);
		// sending on a closed channel panics
		vc.note("channel send: no effect in the model (blocking and delivery are not modelled); only 'not closed' is checked")
		ch := ex.term(fr, in.Chan)
		ex.safeOblige(fr, reach, Or(Eq(ch, IntLit(0)), Not(Select(ex.comp(st, chanClosedComp, aliveSort), ch))), "send-closed", in)
	case *ssa.Select:
		ex.unsupportedAt(in, fmt.Sprintf("concurrency instruction %T (outside the verified subset)", in))
	default:
		ex.unsupportedAt(in, fmt.Sprintf("instruction %T", in))
	}
	return reach
}

func (ex *Exec) zeroInit(st *State, r *Term, t types.Type) {
	vc := ex.vc
	if isStructType(t) {
		s := t.Underlying().(*types.Struct)
		for i := 0; i < s.NumFields(); i++ {
			c, cs, ft := ex.fieldComp(t, i)
			ex.setComp(st, c, Store(ex.comp(st, c, cs), r, vc.Zero(ft)))
		}
		return
	}
	if arr, ok := types.Unalias(t).Underlying().(*types.Array); ok {
		c, cs := ex.sliceComp(arr.Elem())
		arrS := cs.ElemSort()
		ex.setComp(st, c, Store(ex.comp(st, c, cs), r, App("(as const "+string(arrS)+")", arrS, vc.Zero(arr.Elem()))))
		return
	}
	c, cs := ex.cellComp(t)
	ex.setComp(st, c, Store(ex.comp(st, c, cs), r, vc.Zero(t)))
}

func (ex *Exec) toInt(t *Term, typ types.Type) *Term { return t }

func (ex *Exec) strLen(s *Term) *Term {
	ex.vc.declare("strlen", "(declare-fun strlen (Str) Int)")
	l := App("strlen", SInt, s)
	if ex.vc.mode == ModeBV {
		return App("(_ int2bv 64)", SBV64, l)
	}
	return l
}

// safety obligations -------------------------------------------------------------------

// chanClosedComp: per channel reference, whether close() has been called on it.
const chanClosedComp = "chan.closed"

func (ex *Exec) safeOblige(fr *frame, reach *Term, goal *Term, kind string, instr ssa.Instruction) {
	key := relName(ex.top) + "/" + kind
	ex.safeN[key]++
	pos := ""
	if instr != nil && instr.Pos().IsValid() {
		pos = ex.eng.fset.Position(instr.Pos()).String()
	}
	where := relName(fr.fn)
	name := fmt.Sprintf("%s/safe:%s#%d", relName(ex.top), kind, ex.safeN[key])
	if fr.fn != ex.top {
		name += "(in " + where + ")"
	}
	ex.vc.Oblige(&Obligation{Name: name, Kind: "safe", Tags: ex.safetyTags(), Guard: reach, Goal: goal, Func: relName(ex.top), Pos: pos})
}

func (ex *Exec) safetyTags() []string {
	if ex.topC != nil {
		if t, ok := ex.topC.Opts["safety"]; ok && t != "true" {
			return splitComma(t)
		}
	}
	return []string{"C14"}
}

func splitComma(s string) []string {
	var out []string
	for _, x := range splitTop(s, ',') {
		if x != "" {
			out = append(out, x)
		}
	}
	return out
}

func (ex *Exec) derefCheck(fr *frame, st *State, reach **Term, p Value, instr ssa.Instruction, what string) {
	t, ok := p.(*Term)
	if !ok {
		return // interior addresses are derived from checked bases
	}
	if v, isInt := t.IntVal(); isInt && v.Sign() > 0 {
		return
	}
	if t.Op[0] == 'r' && len(t.Op) > 4 && t.Op[:4] == "ref." {
		return // freshly allocated
	}
	nonnil := Not(Eq(t, IntLit(0)))
	if ex.safety {
		ex.safeOblige(fr, *reach, nonnil, "nil-"+what, instr)
	}
	ex.vc.Assume(*reach, nonnil)
}

func (ex *Exec) boundsCheck(fr *frame, st *State, reach **Term, idx, ln *Term, instr ssa.Instruction) {
	vc := ex.vc
	inb := And(vc.Cmp("<=", vc.IntConst(0), idx, types.Typ[types.Int]), vc.Cmp("<", idx, ln, types.Typ[types.Int]))
	if ex.safety {
		ex.safeOblige(fr, *reach, inb, "bounds", instr)
	}
	vc.Assume(*reach, inb)
}

// ---- arithmetic -----------------------------------------------------------------------------

func (ex *Exec) binop(fr *frame, st *State, reach *Term, in *ssa.BinOp) Value {
	vc := ex.vc
	xt := in.X.Type()
	switch in.Op {
	case token.EQL, token.NEQ:
		xo, yo := ex.operand(fr, in.X), ex.operand(fr, in.Y)
		x, ok1 := xo.(*Term)
		y, ok2 := yo.(*Term)
		if !ok1 || !ok2 {
			// comparison of function values with nil
			x, y = ex.term(fr, in.X), ex.term(fr, in.Y)
		}
		if _, isIface := types.Unalias(xt).Underlying().(*types.Interface); isIface {
			if _, yIface := types.Unalias(in.Y.Type()).Underlying().(*types.Interface); yIface {
				// interface comparison: refs compare by identity (boxed values: by content – approximated)
				_ = yIface
			}
		}
		e := Eq(x, y)
		if in.Op == token.NEQ {
			e = Not(e)
		}
		return e
	}
	x, y := ex.term(fr, in.X), ex.term(fr, in.Y)
	switch in.Op {
	case token.LSS:
		return vc.Cmp("<", x, y, xt)
	case token.LEQ:
		return vc.Cmp("<=", x, y, xt)
	case token.GTR:
		return vc.Cmp(">", x, y, xt)
	case token.GEQ:
		return vc.Cmp(">=", x, y, xt)
	case token.LAND:
		return And(x, y)
	case token.LOR:
		return Or(x, y)
	}
	if x.Sort == SStr && in.Op == token.ADD {
		return vc.StrCat(x, y)
	}
	if x.Sort == SReal {
		return ex.floatOp(fr, reach, in.Op.String(), x, y)
	}
	op := in.Op.String()
	if op == "<<" || op == ">>" {
		// shift count may be of a different integer type; both are IntSort
		if ex.safety && !isUnsigned(in.Y.Type()) {
			ex.safeOblige(fr, reach, vc.Cmp(">=", y, vc.IntConst(0), in.Y.Type()), "negshift", in)
		}
	}
	if (op == "/" || op == "%") && x.Sort != SReal {
		nz := Not(Eq(y, vc.IntConst(0)))
		if ex.safety {
			ex.safeOblige(fr, reach, nz, "div0", in)
		}
		vc.Assume(reach, nz)
	}
	r := vc.Arith(op, x, y, in.Type())
	if vc.mode == ModeMath && r.Sort == SInt && (op == "+" || op == "-" || op == "*" || op == "<<") {
		// machine arithmetic: either check for overflow or wrap explicitly
		if ex.ovfCheck {
			key := relName(ex.top) + "/ovf"
			ex.safeN[key]++
			ex.vc.Oblige(&Obligation{Name: fmt.Sprintf("%s/ovf:%s#%d", relName(ex.top), opName(op), ex.safeN[key]), Kind: "ovf", Tags: ex.contractTags(), Guard: reach, Goal: vc.IntRange(r, in.Type()), Func: relName(ex.top), Pos: ex.eng.fset.Position(in.Pos()).String()})
			vc.Assume(reach, vc.IntRange(vc.Def("ar", r), in.Type()))
		} else {
			vc.note("machine integer arithmetic treated as mathematical (no wrap-around) in " + relName(ex.top))
		}
	}
	return r
}

func opName(op string) string {
	switch op {
	case "+":
		return "add"
	case "-":
		return "sub"
	case "*":
		return "mul"
	case "<<":
		return "shl"
	}
	return op
}

func (ex *Exec) contractTags() []string {
	if ex.topC == nil {
		return nil
	}
	seen := map[string]bool{}
	var out []string
	for _, c := range ex.topC.Ensures {
		for _, t := range c.Tags {
			if !seen[t] {
				seen[t] = true
				out = append(out, t)
			}
		}
	}
	return out
}

// floatOp: standard model of IEEE double arithmetic: result = exact*(1+d), |d| <= 2^-53.
func (ex *Exec) floatOp(fr *frame, reach *Term, op string, x, y *Term) *Term {
	vc := ex.vc
	var exact *Term
	switch op {
	case "+", "-", "*", "/":
		exact = App(op, SReal, x, y)
	default:
		panic(unsupported("float op " + op))
	}
	if op == "/" {
		vc.Assume(reach, Not(Eq(y, RealLit(big.NewRat(0, 1)))))
	}
	vc.note("float64 arithmetic in the standard model: each operation returns exact*(1+d), |d|<=2^-53 (no overflow/underflow; operands within normal range)")
	e := vc.Def("fexact", exact)
	r := vc.FreshConst("fl", SReal)
	u := RealLit(new(big.Rat).SetFrac(big.NewInt(1), new(big.Int).Lsh(big.NewInt(1), 53)))
	one := RealLit(big.NewRat(1, 1))
	lo := App("*", SReal, e, App("-", SReal, one, u))
	hi := App("*", SReal, e, App("+", SReal, one, u))
	zero := RealLit(big.NewRat(0, 1))
	vc.Assume(reach, Ite(App(">=", SBool, e, zero),
		And(App("<=", SBool, lo, r), App("<=", SBool, r, hi)),
		And(App("<=", SBool, hi, r), App("<=", SBool, r, lo))))
	// rounding is a monotone function of the exact result (instantiated pairwise, quantifier free)
	for _, p := range ex.floatOps {
		vc.Assume(reach, And(Implies(App("<=", SBool, p[0], e), App("<=", SBool, p[1], r)), Implies(App("<=", SBool, e, p[0]), App("<=", SBool, r, p[1]))))
	}
	ex.floatOps = append(ex.floatOps, [2]*Term{e, r})
	return r
}

func (ex *Exec) convert(fr *frame, st *State, reach *Term, in *ssa.Convert) Value {
	vc := ex.vc
	from, to := types.Unalias(in.X.Type()).Underlying(), types.Unalias(in.Type()).Underlying()
	x := ex.term(fr, in.X)
	fb, fok := from.(*types.Basic)
	tb, tok := to.(*types.Basic)
	if fok && tok {
		fi, ti := fb.Info(), tb.Info()
		switch {
		case fi&types.IsInteger != 0 && ti&types.IsInteger != 0:
			if vc.mode == ModeBV {
				bits := intBits(to)
				if bits < 64 {
					lowmask := new(big.Int).Sub(new(big.Int).Lsh(big.NewInt(1), uint(bits)), big.NewInt(1))
					low := App("bvand", SBV64, x, BVLit(lowmask))
					if isUnsigned(to) {
						return low
					}
					ext := fmt.Sprintf("((_ sign_extend %d) ((_ extract %d 0) ", 64-bits, bits-1)
					return &Term{Op: ext + x.String() + "))", Sort: SBV64}
				}
				return x
			}
			// math mode: value preserved if in range of the target; otherwise wraps.
			inRange := vc.IntRange(x, in.Type())
			if ex.ovfCheck {
				key := relName(ex.top) + "/ovf"
				ex.safeN[key]++
				ex.vc.Oblige(&Obligation{Name: fmt.Sprintf("%s/ovf:conv#%d", relName(ex.top), ex.safeN[key]), Kind: "ovf", Tags: ex.contractTags(), Guard: reach, Goal: inRange, Func: relName(ex.top), Pos: ex.eng.fset.Position(in.Pos()).String()})
				return x
			}
			// exact wrap-around semantics
			bits := intBits(to)
			mod := new(big.Int).Lsh(big.NewInt(1), uint(bits))
			if isUnsigned(to) {
				return Ite(inRange, x, App("mod", SInt, x, BigLit(mod)))
			}
			half := new(big.Int).Lsh(big.NewInt(1), uint(bits-1))
			w := App("-", SInt, App("mod", SInt, App("+", SInt, x, BigLit(half)), BigLit(mod)), BigLit(half))
			return Ite(inRange, x, w)
		case fi&types.IsInteger != 0 && ti&types.IsFloat != 0:
			if vc.mode == ModeBV {
				ex.unsupportedAt(in, "int→float in bv mode")
			}
			// exact below 2^53, else rounded
			lim := BigLit(new(big.Int).Lsh(big.NewInt(1), 53))
			nlim := BigLit(new(big.Int).Neg(new(big.Int).Lsh(big.NewInt(1), 53)))
			exact := And(App("<=", SBool, nlim, x), App("<=", SBool, x, lim))
			r := App("to_real", SReal, x)
			if f := foldCmp("<=", x, lim); f != nil && IsTrue(f) {
				return r
			}
			// general: rounded result within relative error
			rr := vc.FreshConst("i2f", SReal)
			u := RealLit(new(big.Rat).SetFrac(big.NewInt(1), new(big.Int).Lsh(big.NewInt(1), 53)))
			one := RealLit(big.NewRat(1, 1))
			lo := App("*", SReal, r, App("-", SReal, one, u))
			hi := App("*", SReal, r, App("+", SReal, one, u))
			vc.Assume(reach, Ite(exact, Eq(rr, r), Ite(App(">=", SBool, r, RealLit(big.NewRat(0, 1))),
				And(App("<=", SBool, lo, rr), App("<=", SBool, rr, hi)), And(App("<=", SBool, hi, rr), App("<=", SBool, rr, lo)))))
			return rr
		case fi&types.IsFloat != 0 && ti&types.IsInteger != 0:
			// truncation toward zero (value assumed in range of the target type)
			neg := App("-", SInt, App("to_int", SInt, App("-", SReal, x)))
			r := Ite(App(">=", SBool, x, RealLit(big.NewRat(0, 1))), App("to_int", SInt, x), neg)
			vc.note("float64→int conversion modelled as truncation; the value is assumed to lie in the target type's range")
			return r
		case fi&types.IsFloat != 0 && ti&types.IsFloat != 0:
			return x
		case fi&types.IsString != 0 && ti&types.IsString != 0:
			return x
		case fi&types.IsInteger != 0 && ti&types.IsString != 0:
			vc.declare("int2str", fmt.Sprintf("(declare-fun int2str (%s) Str)", vc.IntSort()))
			return App("int2str", SStr, x)
		}
	}
	// string <-> []byte etc.
	if _, ok := to.(*types.Slice); ok && fok && fb.Info()&types.IsString != 0 {
		vc.declare("str2bytes", "(declare-fun str2bytes (Str) Slc)")
		r := App("str2bytes", SSlc, x)
		return r
	}
	if _, ok := from.(*types.Slice); ok && tok && tb.Info()&types.IsString != 0 {
		vc.declare("bytes2str", "(declare-fun bytes2str (Slc) Str)")
		return App("bytes2str", SStr, x)
	}
	if _, ok := to.(*types.Pointer); ok {
		return x
	}
	if tok && tb.Kind() == types.UnsafePointer {
		return x
	}
	ex.unsupportedAt(in, fmt.Sprintf("conversion %s → %s", in.X.Type(), in.Type()))
	return nil
}

// ---- maps ---------------------------------------------------------------------------------------

func (ex *Exec) mapDom(st *State, mt *types.Map, m *Term) *Term {
	d, _, _, ks, _ := ex.mapComps(mt)
	return Select(ex.comp(st, d, ArraySort(SInt, ArraySort(ks, SBool))), m)
}

func (ex *Exec) mapVal(st *State, mt *types.Map, m *Term) *Term {
	_, v, _, ks, vs := ex.mapComps(mt)
	return Select(ex.comp(st, v, ArraySort(SInt, ArraySort(ks, vs))), m)
}

func (ex *Exec) mapLen(st *State, mt *types.Map, m *Term) *Term {
	_, _, l, _, _ := ex.mapComps(mt)
	return Select(ex.comp(st, l, ArraySort(SInt, ex.vc.IntSort())), m)
}

func (ex *Exec) mapStore(st *State, mt *types.Map, m, k, v *Term) {
	d, vn, l, ks, vs := ex.mapComps(mt)
	dsort := ArraySort(SInt, ArraySort(ks, SBool))
	vsort := ArraySort(SInt, ArraySort(ks, vs))
	lsort := ArraySort(SInt, ex.vc.IntSort())
	dc := ex.comp(st, d, dsort)
	had := Select(Select(dc, m), k)
	lc := ex.comp(st, l, lsort)
	ex.setComp(st, l, Store(lc, m, Ite(had, Select(lc, m), ex.vc.Arith("+", Select(lc, m), ex.vc.IntConst(1), types.Typ[types.Int]))))
	ex.setComp(st, d, Store(dc, m, Store(Select(dc, m), k, TTrue)))
	vcmp := ex.comp(st, vn, vsort)
	ex.setComp(st, vn, Store(vcmp, m, Store(Select(vcmp, m), k, v)))
}

func (ex *Exec) mapDelete(st *State, mt *types.Map, m, k *Term) {
	d, vn, l, ks, vs := ex.mapComps(mt)
	dsort := ArraySort(SInt, ArraySort(ks, SBool))
	vsort := ArraySort(SInt, ArraySort(ks, vs))
	lsort := ArraySort(SInt, ex.vc.IntSort())
	dc := ex.comp(st, d, dsort)
	isnil := Eq(m, IntLit(0))
	had := And(Not(isnil), Select(Select(dc, m), k))
	lc := ex.comp(st, l, lsort)
	ex.setComp(st, l, Ite(isnil, lc, Store(lc, m, Ite(had, ex.vc.Arith("-", Select(lc, m), ex.vc.IntConst(1), types.Typ[types.Int]), Select(lc, m)))))
	ex.setComp(st, d, Ite(isnil, dc, Store(dc, m, Store(Select(dc, m), k, TFalse))))
	// a deleted key reads as the zero value
	vcmp := ex.comp(st, vn, vsort)
	ex.setComp(st, vn, Ite(isnil, vcmp, Store(vcmp, m, Store(Select(vcmp, m), k, ex.vc.Zero(mt.Elem())))))
}

func (ex *Exec) lookup(fr *frame, st *State, reach *Term, in *ssa.Lookup) {
	vc := ex.vc
	mt, ok := types.Unalias(in.X.Type()).Underlying().(*types.Map)
	if !ok {
		// string index
		s := ex.term(fr, in.X)
		idx := ex.term(fr, in.Index)
		vc.declare("strat", fmt.Sprintf("(declare-fun strat (Str %s) %s)", vc.IntSort(), vc.IntSort()))
		fr.env[in] = App("strat", vc.IntSort(), s, idx)
		return
	}
	m := ex.term(fr, in.X)
	k := ex.term(fr, in.Index)
	has := vc.Def(fr.fn.Name()+"."+in.Name()+".ok", Select(ex.mapDom(st, mt, m), k))
	// invariant of the map model: absent keys (and all keys of the nil map) read as zero
	val := vc.Def(fr.fn.Name()+"."+in.Name()+".v", Select(ex.mapVal(st, mt, m), k))
	ex.assumeAlive(st, reach, val, mt.Elem())
	if in.CommaOk {
		fr.env[in] = Tuple{val, has}
	} else {
		fr.env[in] = val
	}
}

// ---- map range ------------------------------------------------------------------------------------

func (ex *Exec) rangeInit(fr *frame, st *State, reach *Term, in *ssa.Range) {
	mt, ok := types.Unalias(in.X.Type()).Underlying().(*types.Map)
	if !ok {
		ex.unsupportedAt(in, "range over "+in.X.Type().String())
	}
	m := ex.term(fr, in.X)
	ex.iterN++
	ks := ex.vc.SortOf(mt.Key())
	name := fmt.Sprintf("IT.%s.%d", sanitize(fr.fn.Name()), ex.iterN)
	ex.compSorts[name] = ArraySort(ks, SBool)
	ex.setComp(st, name, App("(as const "+string(ArraySort(ks, SBool))+")", ArraySort(ks, SBool), TFalse))
	fr.env[in] = &IterVal{mapRef: m, kt: mt.Key(), vt: mt.Elem(), id: name}
	if ex.ghostSeen == nil {
		ex.ghostSeen = map[*ssa.Range]string{}
	}
	ex.ghostSeen[in] = name
	// Go semantics: entries added during iteration may or may not be produced; the model
	// produces every key present when Next is called that has not been produced before.
	ex.vc.note("map iteration modelled as: Next yields an arbitrary not-yet-produced key of the map's current domain (order-free)")
}

func (ex *Exec) rangeNext(fr *frame, st *State, reach *Term, in *ssa.Next) {
	vc := ex.vc
	if in.IsString {
		ex.unsupportedAt(in, "range over string")
	}
	it, ok := ex.operand(fr, in.Iter).(*IterVal)
	if !ok {
		ex.unsupportedAt(in, "Next on unknown iterator")
	}
	mt := types.NewMap(it.kt, it.vt)
	ks := vc.SortOf(it.kt)
	seen := ex.comp(st, it.id, ArraySort(ks, SBool))
	isnil := Eq(it.mapRef, IntLit(0))
	dom := ex.mapDom(st, mt, it.mapRef)
	okc := vc.FreshConst(fr.fn.Name()+"."+in.Name()+".ok", SBool)
	k := vc.FreshConst(fr.fn.Name()+"."+in.Name()+".k", ks)
	qv := Sym("k!q", ks)
	vc.Assume(reach, Implies(okc, And(Not(isnil), Select(dom, k), Not(Select(seen, k)))))
	vc.Assume(reach, Implies(Not(okc), Or(isnil, Forall([]*Term{qv}, Implies(Select(dom, qv), Select(seen, qv))))))
	ex.setComp(st, it.id, Ite(okc, Store(seen, k, TTrue), seen))
	v := vc.Def(fr.fn.Name()+"."+in.Name()+".v", Select(ex.mapVal(st, mt, it.mapRef), k))
	ex.assumeAlive(st, And(reach, okc), k, it.kt)
	ex.assumeAlive(st, And(reach, okc), v, it.vt)
	fr.env[in] = Tuple{okc, k, v}
}

// ---- slices -----------------------------------------------------------------------------------------

func (ex *Exec) sliceOp(fr *frame, st *State, reach **Term, in *ssa.Slice) {
	vc := ex.vc
	it := types.Typ[types.Int]
	var lo, hi *Term
	if in.Low != nil {
		lo = ex.term(fr, in.Low)
	} else {
		lo = vc.IntConst(0)
	}
	switch xt := types.Unalias(in.X.Type()).Underlying().(type) {
	case *types.Slice:
		s := ex.term(fr, in.X)
		if in.High != nil {
			hi = ex.term(fr, in.High)
		} else {
			hi = vc.SliceLen(s)
		}
		okc := And(vc.Cmp("<=", vc.IntConst(0), lo, it), vc.Cmp("<=", lo, hi, it), vc.Cmp("<=", hi, vc.SliceCap(s), it))
		if ex.safety {
			ex.safeOblige(fr, *reach, okc, "slice-bounds", in)
		}
		vc.Assume(*reach, okc)
		r := vc.MkSlice(vc.SlicePtr(s), vc.Arith("+", vc.SliceOff(s), lo, it), vc.Arith("-", hi, lo, it), vc.Arith("-", vc.SliceCap(s), lo, it))
		fr.env[in] = vc.Def(fr.fn.Name()+"."+in.Name(), r)
	case *types.Pointer:
		arr := xt.Elem().Underlying().(*types.Array)
		r := ex.term(fr, in.X)
		if in.High != nil {
			hi = ex.term(fr, in.High)
		} else {
			hi = vc.IntConst(arr.Len())
		}
		fr.env[in] = vc.MkSlice(r, lo, vc.Arith("-", hi, lo, it), vc.Arith("-", vc.IntConst(arr.Len()), lo, it))
	case *types.Basic:
		s := ex.term(fr, in.X)
		if in.High != nil {
			hi = ex.term(fr, in.High)
		} else {
			hi = ex.strLen(s)
		}
		okc := And(vc.Cmp("<=", vc.IntConst(0), lo, it), vc.Cmp("<=", lo, hi, it), vc.Cmp("<=", hi, ex.strLen(s), it))
		if ex.safety {
			ex.safeOblige(fr, *reach, okc, "slice-bounds", in)
		}
		vc.Assume(*reach, okc)
		vc.declare("substr", fmt.Sprintf("(declare-fun substr (Str %s %s) Str)", vc.IntSort(), vc.IntSort()))
		r := App("substr", SStr, s, lo, hi)
		vc.declare("strlen", "(declare-fun strlen (Str) Int)")
		if vc.mode == ModeMath {
			vc.Assume(*reach, Eq(App("strlen", SInt, r), App("-", SInt, hi, lo)))
			// taking the whole string is the identity
			vc.Assume(*reach, Implies(And(Eq(lo, IntLit(0)), Eq(hi, App("strlen", SInt, s))), Eq(r, s)))
		}
		fr.env[in] = vc.Def(fr.fn.Name()+"."+in.Name(), r)
	default:
		ex.unsupportedAt(in, "slice of "+in.X.Type().String())
	}
}

func (ex *Exec) sliceElems(st *State, elem types.Type, s *Term) *Term {
	c, cs := ex.sliceComp(elem)
	return Select(ex.comp(st, c, cs), ex.vc.SlicePtr(s))
}

// appendOne models append(s, x): always a fresh backing array (copy semantics).
func (ex *Exec) appendVals(st *State, reach *Term, elem types.Type, s *Term, xs []*Term) *Term {
	vc := ex.vc
	it := types.Typ[types.Int]
	c, cs := ex.sliceComp(elem)
	arr := ex.sliceElems(st, elem, s)
	n := vc.SliceLen(s)
	for i, x := range xs {
		arr = Store(arr, vc.Arith("+", vc.SliceOff(s), vc.Arith("+", n, vc.IntConst(int64(i)), it), it), x)
	}
	if v, isLit := vc.SliceOff(s).IntVal(); !(isLit && v.Sign() == 0) && vc.quantDepth == 0 && vc.mode == ModeMath {
		// symbolic offset: elements are read through the accessor sl.at(arr, off, i), an uninterpreted function
		// with a pattern-guarded definition; state the relation between the new and the old backing array in
		// terms of the accessor itself, triggered by reads of the NEW array (a consequence of the store above;
		// without it E-matching has no term of the old array to instantiate hypotheses about the old slice on)
		old := ex.sliceElems(st, elem, s)
		narr := vc.Def("apparr", arr)
		iq := Sym("i!q", vc.IntSort())
		rhs := vc.SliceAt(old, vc.SliceOff(s), iq)
		for i := len(xs) - 1; i >= 0; i-- {
			rhs = Ite(Eq(iq, vc.Arith("+", n, vc.IntConst(int64(i)), it)), xs[i], rhs)
		}
		lhs := vc.SliceAt(narr, vc.SliceOff(s), iq)
		q := &Term{Op: "forall", Bound: []*Term{iq}, Args: []*Term{Eq(lhs, rhs)}, Sort: SBool, Pats: [][]*Term{{lhs}}}
		vc.Assume(reach, q)
		arr = narr
	}
	r := ex.freshRef(st, reach, "append")
	ex.setComp(st, c, Store(ex.comp(st, c, cs), r, arr))
	nl := vc.Arith("+", n, vc.IntConst(int64(len(xs))), it)
	ex.vc.note("append always copies into a fresh backing array (aliasing between the appended slice and its source is not modelled)")
	return vc.MkSlice(r, vc.SliceOff(s), nl, nl)
}

// ---- interfaces ---------------------------------------------------------------------------------------

func isPointerLike(t types.Type) bool {
	switch types.Unalias(t).Underlying().(type) {
	case *types.Pointer, *types.Map, *types.Chan, *types.Signature:
		return true
	}
	return false
}

func (ex *Exec) boxFun(t types.Type) (string, Sort) {
	s := ex.vc.SortOf(t)
	name := "unbox." + typeKey(types.Unalias(t))
	ex.vc.declare(name, fmt.Sprintf("(declare-fun %s (Int) %s)", name, s))
	return name, s
}

func (ex *Exec) makeInterface(fr *frame, st *State, reach *Term, in *ssa.MakeInterface) Value {
	vc := ex.vc
	xt := in.X.Type()
	xo := ex.operand(fr, in.X)
	if isPointerLike(xt) {
		x, ok := xo.(*Term)
		if !ok {
			if _, isF := xo.(*FuncVal); isF {
				return IntLit(1)
			}
			if _, isC := xo.(*Closure); isC {
				return ex.freshRef(st, reach, "closure-iface")
			}
			if a, isA := xo.(*Addr); isA {
				// an interior pointer (&x.f) boxed into an interface: a first-class reference that stands
				// for the address (resolved again by `modifies *x` of the callee's contract)
				return ex.addrRefOf(a)
			}
			ex.unsupportedAt(in, fmt.Sprintf("interface from %T", xo))
		}
		if ex.boxedPtr == nil {
			ex.boxedPtr = map[string]types.Type{}
		}
		ex.boxedPtr[x.String()] = xt
		// a nil pointer in an interface is a non-nil interface in Go; we model interface
		// values holding pointers by the pointer itself (typed-nil interfaces are not modelled).
		vc.note("interface values holding pointers are modelled by the pointer (a typed nil pointer inside an interface is treated as a nil interface)")
		vc.Assume(reach, Implies(Not(Eq(x, IntLit(0))), Eq(vc.TypeOf(x), vc.TypeTag(xt))))
		return x
	}
	x, ok := xo.(*Term)
	if !ok {
		ex.unsupportedAt(in, fmt.Sprintf("interface from %T", xo))
	}
	// box a value
	r := ex.freshRef(st, reach, "box")
	ub, _ := ex.boxFun(xt)
	vc.Assume(reach, Eq(App(ub, x.Sort, r), x))
	vc.Assume(reach, Eq(vc.TypeOf(r), vc.TypeTag(xt)))
	return r
}

func (ex *Exec) typeAssert(fr *frame, st *State, reach **Term, in *ssa.TypeAssert) {
	vc := ex.vc
	x := ex.term(fr, in.X)
	at := in.AssertedType
	var okc, val *Term
	if _, isIface := types.Unalias(at).Underlying().(*types.Interface); isIface {
		// interface-to-interface assertion: succeeds iff non-nil and dynamic type implements it (uninterpreted)
		name := "implements." + typeKey(types.Unalias(at))
		vc.declare(name, fmt.Sprintf("(declare-fun %s (Int) Bool)", name))
		okc = And(Not(Eq(x, IntLit(0))), App(name, SBool, vc.TypeOf(x)))
		val = x
	} else {
		okc = And(Not(Eq(x, IntLit(0))), Eq(vc.TypeOf(x), vc.TypeTag(at)))
		if isPointerLike(at) {
			val = x
		} else {
			ub, s := ex.boxFun(at)
			val = App(ub, s, x)
		}
	}
	okc = vc.Def(fr.fn.Name()+"."+in.Name()+".ok", okc)
	if in.CommaOk {
		zero := vc.Zero(at)
		fr.env[in] = Tuple{vc.Def(fr.fn.Name()+"."+in.Name(), Ite(okc, val, zero)), okc}
		return
	}
	if ex.safety {
		ex.safeOblige(fr, *reach, okc, "typeassert", in)
	}
	vc.Assume(*reach, okc)
	fr.env[in] = vc.Def(fr.fn.Name()+"."+in.Name(), val)
}
