package main

import (
	"encoding/json"
	"flag"
	"fmt"
	"os"
	"path/filepath"
	"regexp"
	"sort"
	"strconv"
	"strings"
	"time"

	"golang.org/x/tools/go/ssa"
)

type Finding struct {
	Property   string
	Obligation string // exact obligation name, or
	Func       string // function (as in obligation names, e.g. resmgr:(*nriPlugin).UpdateContainer) +
	Clause     string // text of the contract clause + (optionally)
	At         string // a text that occurs on the source line of the return statement at which the clause fails
	Text       string
}

var findingKV = regexp.MustCompile(`(func|clause|at)="([^"]*)"`)

func loadFindings(path string) (findings []Finding, fixed []string) {
	data, err := os.ReadFile(path)
	if err != nil {
		return nil, nil
	}
	for _, ln := range strings.Split(string(data), "\n") {
		ln = strings.TrimSpace(ln)
		if strings.HasPrefix(ln, "finding:") {
			f := Finding{Text: strings.TrimSpace(ln[len("finding:"):])}
			for _, w := range strings.Fields(f.Text) {
				if strings.HasPrefix(w, "property=") {
					f.Property = w[len("property="):]
				}
				if strings.HasPrefix(w, "obligation=") {
					f.Obligation = w[len("obligation="):]
				}
			}
			for _, m := range findingKV.FindAllStringSubmatch(f.Text, -1) {
				switch m[1] {
				case "func":
					f.Func = m[2]
				case "clause":
					f.Clause = m[2]
				case "at":
					f.At = m[2]
				}
			}
			findings = append(findings, f)
		} else if strings.HasPrefix(ln, "fixed:") {
			fixed = append(fixed, ln)
		}
	}
	return
}

func hasTag(tags []string, p string) bool {
	for _, t := range tags {
		if t == p {
			return true
		}
	}
	return false
}

func contractHasTag(fc *FuncContract, p string) bool {
	for _, c := range fc.Ensures {
		if hasTag(c.Tags, p) {
			return true
		}
	}
	for _, lc := range fc.Loops {
		for _, c := range lc.Invariants {
			if hasTag(c.Tags, p) {
				return true
			}
		}
	}
	if t, ok := fc.Opts["safety"]; ok {
		if t == "true" && p == "C14" {
			return true
		}
		if hasTag(splitComma(t), p) {
			return true
		}
	}
	if t, ok := fc.Opts["tags"]; ok && hasTag(splitComma(t), p) {
		return true
	}
	return false
}

func main() {
	if len(os.Args) < 2 {
		fmt.Fprintln(os.Stderr, "usage: govc check|dump|list ...")
		os.Exit(2)
	}
	switch os.Args[1] {
	case "check":
		os.Exit(cmdCheck(os.Args[2:]))
	case "dump":
		os.Exit(cmdDump(os.Args[2:]))
	default:
		fmt.Fprintln(os.Stderr, "unknown command")
		os.Exit(2)
	}
}

func packagesFor(repo string, prop string, specDir string) ([]string, error) {
	files, err := FindContractFiles(repo)
	if err != nil {
		return nil, err
	}
	re := regexp.MustCompile(`\b` + regexp.QuoteMeta(prop) + `\b`)
	dirs := map[string]bool{}
	for _, f := range files {
		data, err := os.ReadFile(f)
		if err != nil {
			continue
		}
		if prop == "" || re.Match(data) {
			rel, _ := filepath.Rel(repo, filepath.Dir(f))
			dirs["./"+rel] = true
		}
	}
	var out []string
	for d := range dirs {
		out = append(out, d)
	}
	sort.Strings(out)
	return out, nil
}

type oblRecord struct {
	Name    string  `json:"name"`
	Func    string  `json:"func"`
	Kind    string  `json:"kind"`
	Status  string  `json:"status"`
	Solver  string  `json:"solver"`
	Seconds float64 `json:"seconds"`
	Note    string  `json:"clause,omitempty"`
}

func cmdCheck(args []string) int {
	fs := flag.NewFlagSet("check", flag.ExitOnError)
	prop := fs.String("prop", "", "property id")
	tier := fs.String("tier", "quick", "quick|thorough")
	repo := fs.String("repo", "/repo", "repository")
	verif := fs.String("verif", "/verif", "verif dir")
	workers := fs.Int("workers", 8, "parallel obligations")
	keep := fs.Bool("keep", false, "keep SMT files")
	only := fs.String("only", "", "only functions matching this substring (debug; no evidence written)")
	verbose := fs.Bool("v", false, "verbose")
	fs.Parse(args)
	t0 := time.Now()
	seed := 0
	if s := os.Getenv("VERIF_SEED"); s != "" {
		seed, _ = strconv.Atoi(s)
	}
	if t := os.Getenv("VERIF_TIER"); t != "" && (t == "quick" || t == "thorough") {
		*tier = t
	}
	timeout := 20
	if *tier == "thorough" {
		timeout = 120
	}
	specDir := filepath.Join(*verif, "specs")
	pats, err := packagesFor(*repo, *prop, specDir)
	if err != nil || len(pats) == 0 {
		fmt.Fprintf(os.Stderr, "govc: no contract files mention %s (%v)\n", *prop, err)
		return 2
	}
	eng, err := LoadEngine(*repo, pats, "verif")
	if err != nil {
		// the tree does not build: not a property verdict
		fmt.Fprintf(os.Stderr, "govc: cannot load packages: %v\n", err)
		return 2
	}
	if err := eng.LoadContracts(specDir); err != nil {
		fmt.Fprintf(os.Stderr, "govc: contract files: %v\n", err)
		return 2
	}
	tLoad := time.Since(t0).Seconds()
	smtDir, _ := os.MkdirTemp("", "govc-"+*prop+"-")
	if !*keep {
		defer os.RemoveAll(smtDir)
	}

	var results []*FuncResult
	var genFailures []string
	var funcsUnder []string
	type keyed struct {
		k  string
		fc *FuncContract
	}
	var todo []keyed
	for _, k := range sortedKeys(eng.cs.Funcs) {
		todo = append(todo, keyed{k, eng.cs.Funcs[k]})
	}
	for _, k := range sortedKeys(eng.cs.Standalone) {
		todo = append(todo, keyed{k, eng.cs.Standalone[k]})
	}
	for _, kf := range todo {
		k, fc := kf.k, kf.fc
		if fc.Trusted || fc.Opts["inline-only"] != "" {
			continue
		}
		if !contractHasTag(fc, *prop) {
			continue
		}
		if *only != "" && !strings.Contains(k, *only) {
			continue
		}
		fn := eng.FindFunc(fc.Pkg, fc.Name)
		if fn == nil {
			genFailures = append(genFailures, fmt.Sprintf("%s: function under contract not found in the source (contract at %s:%d)", k, fc.File, fc.Line))
			continue
		}
		r := eng.VerifyFunc(fn, fc)
		results = append(results, r)
		funcsUnder = append(funcsUnder, k)
		if r.Err != nil {
			genFailures = append(genFailures, fmt.Sprintf("%s: %v", k, r.Err))
		}
		if *verbose {
			for _, w := range r.Warnings {
				fmt.Fprintf(os.Stderr, "warn %s: %s\n", k, w)
			}
		}
	}
	for _, lm := range eng.cs.Lemmas {
		if !hasTag(lm.Tags, *prop) {
			continue
		}
		if *only != "" && !strings.Contains(lm.Name, *only) {
			continue
		}
		r := eng.VerifyLemma(lm)
		results = append(results, r)
		funcsUnder = append(funcsUnder, r.Key)
		if r.Err != nil {
			genFailures = append(genFailures, fmt.Sprintf("%s: %v", r.Key, r.Err))
		}
	}
	tGen := time.Since(t0).Seconds() - tLoad

	var jobs []*job
	for _, r := range results {
		if r.Err != nil {
			continue
		}
		for _, o := range r.VC.obls {
			if len(o.Tags) == 0 {
				o.Tags = r.Tags
			}
			if sp := shortPkg(r.Key); sp != "" && !strings.HasPrefix(o.Name, sp+":") {
				o.Name = sp + ":" + o.Name
			}
			if !hasTag(o.Tags, *prop) {
				continue
			}
			if o.Kind == "cover" && *tier != "thorough" && !o.LastRet {
				continue
			}
			jobs = append(jobs, &job{vc: r.VC, o: o})
		}
	}
	modelVars := func(j *job) []string {
		var out []string
		for _, l := range j.vc.lines[:j.o.Prefix] {
			if strings.HasPrefix(l, "(declare-const p.") {
				f := strings.Fields(l)
				// only scalar sorts are printed
				sort := strings.TrimSuffix(strings.Join(f[2:], " "), ")")
				if sort == "Int" || sort == "Bool" || sort == "Real" || sort == "(_ BitVec 64)" {
					out = append(out, f[1])
				}
			}
		}
		return out
	}
	SolveAll(jobs, smtDir, timeout, *workers, modelVars, *tier == "thorough")

	findings, _ := loadFindings(filepath.Join(*verif, "known-findings.txt"))
	isKnown := func(o *Obligation) *Finding {
		for i := range findings {
			f := &findings[i]
			if f.Property != *prop {
				continue
			}
			if f.Obligation != "" && f.Obligation == o.Name {
				return f
			}
			if f.Func != "" && f.Clause != "" && strings.HasPrefix(o.Name, f.Func+"/") && strings.TrimSpace(o.Note) == f.Clause &&
				(f.At == "" || strings.Contains(o.RetLine, f.At)) {
				return f
			}
		}
		return nil
	}
	var recs []oblRecord
	discharged := 0
	bySolver := map[string]int{}
	solverSecs := 0.0
	violations := 0
	knownHit := map[string]bool{}
	knownN := 0
	var knownObls []string
	replayDir := filepath.Join(*verif, "replays")
	os.MkdirAll(replayDir, 0755)
	if *only == "" {
		if old, _ := filepath.Glob(filepath.Join(replayDir, *prop+"__*")); old != nil {
			for _, f := range old {
				os.Remove(f)
			}
		}
	}
	var out []string
	var deadReturns []string
	for _, j := range jobs {
		r := j.res
		ok := false
		if j.o.WantSat {
			ok = r.Status != "unsat" // vacuity guard: only a definite unsat is a failure
			if !ok && j.o.Kind == "cover" && !j.o.LastRet {
				// a return other than the last one that is unreachable under the contract is a dead
				// (error) path, not a vacuous contract: recorded, not a violation (thorough tier only
				// generates these)
				ok = true
				deadReturns = append(deadReturns, j.o.Name)
			}
		} else {
			ok = r.Status == "unsat"
		}
		rec := oblRecord{Name: j.o.Name, Func: j.o.Func, Kind: j.o.Kind, Status: r.Status, Solver: r.Solver, Seconds: r.Seconds, Note: j.o.Note}
		recs = append(recs, rec)
		solverSecs += r.Seconds
		if ok {
			discharged++
			bySolver[r.Solver]++
			continue
		}
		if f := isKnown(j.o); f != nil {
			if !knownHit[f.Text] {
				out = append(out, fmt.Sprintf("KNOWN-FINDING: %s", f.Text))
				knownHit[f.Text] = true
			}
			knownN++
			knownObls = append(knownObls, j.o.Name)
			continue
		}
		violations++
		rp := writeReplay(eng, replayDir, *prop, j, *repo)
		out = append(out, rp)
	}
	// bounded stand-ins (labelled bounded; never counted as proved)
	type boundedRec struct {
		Name   string  `json:"name"`
		File   string  `json:"file"`
		Cases  int     `json:"cases"`
		Passed bool    `json:"passed"`
		Secs   float64 `json:"seconds"`
		Bound  string  `json:"bound"`
	}
	var bounded []boundedRec
	if *only == "" {
		bfiles, _ := filepath.Glob(filepath.Join(*verif, "bounded", *prop+"_*_test.go"))
		for _, bf := range bfiles {
			data, _ := os.ReadFile(bf)
			dir := ""
			for _, ln := range strings.Split(string(data), "\n") {
				if strings.HasPrefix(ln, "// govc:bounded") {
					for _, w := range strings.Fields(ln) {
						if strings.HasPrefix(w, "dir=") {
							dir = w[4:]
						}
					}
				}
			}
			if dir == "" {
				continue
			}
			bt0 := time.Now()
			okb, outb := runOverlayTestNamed(filepath.Join(*repo, dir), bf, "^TestGovcBounded")
			cases := 0
			for _, ln := range strings.Split(outb, "\n") {
				if i := strings.Index(ln, "GOVC-BOUNDED-CASES "); i >= 0 {
					cases, _ = strconv.Atoi(strings.TrimSpace(ln[i+len("GOVC-BOUNDED-CASES "):]))
				}
			}
			passed := okb && !strings.Contains(outb, "GOVC-BOUNDED-VIOLATED") && cases > 0
			bounded = append(bounded, boundedRec{Name: filepath.Base(bf), File: bf, Cases: cases, Passed: passed, Secs: time.Since(bt0).Seconds(), Bound: "see the header comment of the file"})
			if !passed {
				name := "bounded:" + filepath.Base(bf)
				if f := isKnown(&Obligation{Name: name}); f != nil {
					out = append(out, fmt.Sprintf("KNOWN-FINDING: %s", f.Text))
					continue
				}
				violations++
				rp := filepath.Join(replayDir, sanitize(*prop+"__"+name)+".txt")
				os.WriteFile(rp, []byte("bounded stand-in "+bf+" failed on the real code:\n"+truncate(outb, 6000)), 0644)
				out = append(out, fmt.Sprintf("VIOLATION property=%s replay=%s obligation=%s", *prop, rp, name))
			}
		}
	}
	// obligations that could not even be generated
	for _, g := range genFailures {
		name := strings.SplitN(g, ":", 2)[0] + "/generate"
		if f := isKnown(&Obligation{Name: name}); f != nil {
			out = append(out, fmt.Sprintf("KNOWN-FINDING: %s", f.Text))
			continue
		}
		violations++
		p := filepath.Join(replayDir, sanitize(*prop+"__"+name)+".txt")
		os.WriteFile(p, []byte("obligation: "+name+"\nstatus: not generated (the verifier could not produce the obligations of this function)\nreason: "+g+"\n"), 0644)
		out = append(out, fmt.Sprintf("VIOLATION property=%s replay=%s obligation=%s no-failing-input-found", *prop, p, name))
	}
	// a known finding that no longer fails is fine (it may have been fixed); nothing to report.

	// evidence
	wall := time.Since(t0).Seconds()
	assume := map[string]bool{}
	dropped := map[string]bool{}
	for _, r := range results {
		if r.VC == nil {
			continue
		}
		for _, a := range r.VC.assumes {
			assume[a] = true
		}
		for d := range r.VC.dropped {
			dropped[d] = true
		}
	}
	// trusted base: the assumed contracts / effect declarations / models this run actually used
	// (recorded as notes while generating the obligations of the functions of this property)
	var trusted []string
	for _, a := range sortedBoolKeys(assume) {
		if strings.HasPrefix(a, "assumed ") || strings.HasPrefix(a, "trusted model") {
			trusted = append(trusted, a)
		}
	}
	trusted = append(trusted, "go/types + go/ssa (x/tools v0.29.0) translation of the source", "govc VC generator (this directory)", "SMT solvers z3 4.8.12, z3 5.1.0, cvc5 1.0.x")
	var samples []interface{}
	for i, rec := range recs {
		if i < 12 || rec.Status != "unsat" {
			samples = append(samples, rec)
		}
	}
	if *only == "" {
		ev := map[string]interface{}{
			"property_id": *prop, "tier": *tier, "seed": seed, "level": "proof", "wall_s": wall, "violations": violations,
			"coverage": map[string]interface{}{
				// obligations that fail because of a listed known finding are reported separately and are not
				// part of the proof claim
				"obligations": len(jobs) + len(genFailures) - knownN, "discharged": discharged,
				"known_finding_obligations": knownObls,
				"checker_cmd":               fmt.Sprintf("govc check -prop %s -tier %s (z3 4.8.12 | z3-new 5.1.0 | cvc5, first definite answer; timeout %ds)", *prop, *tier, timeout),
				"trusted_base":              trusted,
				"unreachable_returns":       deadReturns,
				"functions_under_contract":  funcsUnder,
				"by_solver":                 bySolver,
				"solver_seconds":            solverSecs,
				"load_seconds":              tLoad,
				"vcgen_seconds":             tGen,
				"dropped":                   sortedBoolKeys(dropped),
				"known_findings_reported":   len(knownHit),
				"bounded_standins":          bounded,
				"samples":                   samples,
				"all_obligations":           recs,
				"explanation":               "each obligation is one SMT query generated from the SSA of the named function in /repo's working tree and its contract; discharged = the solver answered unsat (sat for vacuity guards)",
			},
			"assumptions": sortedBoolKeys(assume),
		}
		os.MkdirAll(filepath.Join(*verif, "evidence"), 0755)
		data, _ := json.MarshalIndent(ev, "", " ")
		os.WriteFile(filepath.Join(*verif, "evidence", *prop+".json"), data, 0644)
	}
	for _, l := range out {
		fmt.Println(l)
	}
	fmt.Printf("govc: property=%s tier=%s functions=%d obligations=%d discharged=%d violations=%d known=%d load=%.1fs gen=%.1fs solve=%.1fs wall=%.1fs\n",
		*prop, *tier, len(funcsUnder), len(jobs)+len(genFailures), discharged, violations, len(knownHit), tLoad, tGen, solverSecs, wall)
	if *verbose {
		for _, rec := range recs {
			fmt.Printf("  %-8s %-7s %6.2fs %s\n", rec.Status, rec.Solver, rec.Seconds, rec.Name)
		}
	}
	if len(jobs) == 0 && len(genFailures) == 0 {
		fmt.Fprintln(os.Stderr, "govc: no obligations generated (vacuous check) – treated as an engine error")
		return 2
	}
	if violations > 0 {
		return 1
	}
	return 0
}

func sortedBoolKeys(m map[string]bool) []string {
	out := []string{}
	for k := range m {
		out = append(out, k)
	}
	sort.Strings(out)
	return out
}

func cmdDump(args []string) int {
	fs := flag.NewFlagSet("dump", flag.ExitOnError)
	repo := fs.String("repo", "/repo", "repository")
	verif := fs.String("verif", "/verif", "verif dir")
	pkg := fs.String("pkg", "", "package dir pattern, e.g. ./pkg/kubernetes")
	fname := fs.String("func", "", "function")
	ssaOnly := fs.Bool("ssa", false, "print SSA only")
	obl := fs.String("obl", "", "print the SMT script of the obligation with this name")
	fs.Parse(args)
	eng, err := LoadEngine(*repo, []string{*pkg}, "verif")
	if err != nil {
		fmt.Fprintln(os.Stderr, err)
		return 2
	}
	if err := eng.LoadContracts(filepath.Join(*verif, "specs")); err != nil {
		fmt.Fprintln(os.Stderr, err)
		return 2
	}
	var fn *ssa.Function
	var fc *FuncContract
	for k, c := range eng.cs.Funcs {
		if strings.HasSuffix(k, "."+*fname) {
			fc = c
			fn = eng.FindFunc(c.Pkg, c.Name)
		}
	}
	if fn == nil {
		for path := range eng.spkgs {
			if strings.HasPrefix(path, modulePath) {
				if f := eng.FindFunc(path, *fname); f != nil {
					fn = f
				}
			}
		}
	}
	if fn == nil {
		fmt.Fprintln(os.Stderr, "function not found")
		return 2
	}
	if *ssaOnly {
		fn.WriteTo(os.Stdout)
		for _, af := range fn.AnonFuncs {
			af.WriteTo(os.Stdout)
		}
		return 0
	}
	if fc == nil {
		fmt.Fprintln(os.Stderr, "no contract")
		return 2
	}
	r := eng.VerifyFunc(fn, fc)
	if r.Err != nil {
		fmt.Println("ERROR:", r.Err)
	}
	for _, o := range r.VC.obls {
		if *obl == "" {
			fmt.Println(o.Name, o.Kind, o.Tags)
		} else if o.Name == *obl {
			fmt.Println(r.VC.Script(o, false, nil))
		}
	}
	for _, w := range r.Warnings {
		fmt.Println("warn:", w)
	}
	return 0
}

// shortPkg: last path element of the package part of a function key (disambiguates equal function names
// of different packages in obligation names, e.g. the (*plugin).CreateContainer of three plugins).
func shortPkg(key string) string {
	i := strings.Index(key, ".(")
	if i < 0 {
		i = strings.LastIndex(key, ".")
		// plain functions: pkgpath.Func ; lemmas: pkgpath.lemma:Name
		if j := strings.Index(key, ".lemma:"); j >= 0 {
			i = j
		}
	}
	if i < 0 {
		return ""
	}
	p := key[:i]
	if j := strings.LastIndex(p, "/"); j >= 0 {
		p = p[j+1:]
	}
	return p
}
