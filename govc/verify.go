package main

import (
	"os"
	"fmt"
	"go/token"
	"go/types"
	"sort"
	"strconv"
	"strings"

	"golang.org/x/tools/go/ssa"
)

// ---- modifies -------------------------------------------------------------------------------------

type modLoc struct {
	comp string
	sort Sort
	idx  *Term // nil: whole component
	cond *Term // nil: unconditional
}

// exclTerm: r is not this location (or the location's condition does not hold)
func (l modLoc) excl(r *Term) *Term {
	e := Not(Eq(r, l.idx))
	if l.cond != nil {
		return Or(Not(l.cond), e)
	}
	return e
}

// evalModifies evaluates the modifies clauses of a contract in the given environment (pre-state).
func (ex *Exec) evalModifies(clauses []*Clause, se *SpecEnv) (locs []modLoc, all bool) {
	for _, c := range clauses {
		for _, part := range splitTop(c.Text, ',') {
			part = strings.TrimSpace(part)
			if part == "" || part == "nothing" {
				continue
			}
			if part == "*" {
				return nil, true
			}
			var cond *Term
			if i := strings.Index(part, " if "); i >= 0 {
				ce, err := ParseSpecExpr(part[i+4:])
				if err != nil {
					panic(specErr{err.Error()})
				}
				cond = se.evalBool(ce)
				part = strings.TrimSpace(part[:i])
			}
			ls := ex.evalModPart(part, se)
			for _, l := range ls {
				if l.comp == "*" {
					return nil, true
				}
			}
			for i := range ls {
				ls[i].cond = cond
			}
			locs = append(locs, ls...)
		}
	}
	return locs, false
}

func (ex *Exec) evalModPart(part string, se *SpecEnv) (locs []modLoc) {
	if strings.HasPrefix(part, "comp ") {
		// comp T.f : a whole field component
		tf := strings.TrimSpace(part[5:])
		i := strings.LastIndex(tf, ".")
		if i < 0 {
			panic(specErr{"bad comp in modifies: " + part})
		}
		t := ex.eng.parseType(se.pkg, tf[:i])
		if t == nil {
			panic(specErr{"unknown type in modifies: " + part})
		}
		su, ok := t.Underlying().(*types.Struct)
		if !ok {
			panic(specErr{"comp of non-struct in modifies: " + part})
		}
		found := false
		for fi := 0; fi < su.NumFields(); fi++ {
			if su.Field(fi).Name() == tf[i+1:] {
				cn, cs, _ := ex.fieldComp(t, fi)
				locs = append(locs, modLoc{comp: cn, sort: cs})
				found = true
			}
		}
		if !found {
			panic(specErr{"unknown field in modifies: " + part})
		}
		return locs
	}
	if strings.HasPrefix(part, "slices ") {
		t := ex.eng.parseType(se.pkg, strings.TrimSpace(part[7:]))
		if t == nil {
			panic(specErr{"slices <element type> expected: " + part})
		}
		cn, cs := ex.sliceComp(t)
		return []modLoc{{comp: cn, sort: cs}}
	}
	if strings.HasPrefix(part, "maps ") {
		t := ex.eng.parseType(se.pkg, strings.TrimSpace(part[5:]))
		mt, ok := t.(*types.Map)
		if t == nil || !ok {
			panic(specErr{"maps <map type> expected in modifies: " + part})
		}
		d, vn, l, ks, vs := ex.mapComps(mt)
		return []modLoc{{comp: d, sort: ArraySort(SInt, ArraySort(ks, SBool))}, {comp: vn, sort: ArraySort(SInt, ArraySort(ks, vs))}, {comp: l, sort: ArraySort(SInt, ex.vc.IntSort())}}
	}
	if strings.HasPrefix(part, "closed(") && strings.HasSuffix(part, ")") {
		// closed(ch): the closed-state of channel ch
		e, err := ParseSpecExpr(part[7 : len(part)-1])
		if err != nil {
			panic(specErr{err.Error()})
		}
		v, _ := se.evalTerm(e)
		return []modLoc{{comp: chanClosedComp, sort: aliveSort, idx: v}}
	}
	if strings.HasPrefix(part, "global ") {
		name := strings.TrimSpace(part[7:])
		obj, _ := se.pkg.Scope().Lookup(name).(*types.Var)
		if obj == nil {
			panic(specErr{"unknown global in modifies: " + part})
		}
		g := ex.eng.globalOf(obj)
		return []modLoc{{comp: globalComp(g), sort: ex.vc.SortOf(obj.Type())}}
	}
	contents := false
	if strings.HasSuffix(part, "[*]") {
		contents = true
		part = strings.TrimSpace(part[:len(part)-3])
	}
	e, err := ParseSpecExpr(part)
	if err != nil {
		panic(specErr{err.Error()})
	}
	if contents {
		v, t := se.evalTerm(e)
		switch u := types.Unalias(t).Underlying().(type) {
		case *types.Map:
			d, vn, l, ks, vs := ex.mapComps(u)
			return []modLoc{{comp: d, sort: ArraySort(SInt, ArraySort(ks, SBool)), idx: v},
				{comp: vn, sort: ArraySort(SInt, ArraySort(ks, vs)), idx: v}, {comp: l, sort: ArraySort(SInt, ex.vc.IntSort()), idx: v}}
		case *types.Slice:
			cn, cs := ex.sliceComp(u.Elem())
			return []modLoc{{comp: cn, sort: cs, idx: ex.vc.SlicePtr(v)}}
		default:
			panic(specErr{"[*] on non-map/slice in modifies: " + part})
		}
	}
	// location expression: *p, x.f
	if u, ok := e.(*SUn); ok && u.Op == "*" {
		// *x for an interface-typed x holding a pointer: the pointee known from the call site
		v, t := se.eval(u.X)
		if _, isIface := types.Unalias(t).Underlying().(*types.Interface); isIface {
			vt, _ := v.(*Term)
			if vt != nil && vt.IsLeaf() {
				if a, ok := ex.addrVals[vt.Op]; ok {
					if len(a.idx) == 0 {
						return []modLoc{{comp: a.comp, sort: a.compSort}}
					}
					return []modLoc{{comp: a.comp, sort: a.compSort, idx: a.idx[0]}}
				}
			}
			if vt != nil {
				if bt, ok := ex.boxedPtr[vt.String()]; ok {
					if pt, ok := types.Unalias(bt).Underlying().(*types.Pointer); ok {
						if su, isS := types.Unalias(pt.Elem()).Underlying().(*types.Struct); isS {
							for fi := 0; fi < su.NumFields(); fi++ {
								cn, cs, _ := ex.fieldComp(pt.Elem(), fi)
								locs = append(locs, modLoc{comp: cn, sort: cs, idx: vt})
							}
							return locs
						}
						a := ex.cellAddr(vt, pt.Elem())
						return []modLoc{{comp: a.comp, sort: a.compSort, idx: a.idx[0]}}
					}
				}
			}
			// dynamic pointee unknown: everything may be modified
			return []modLoc{{comp: "*"}}
		}
	}
	a := ex.evalLocation(se, e)
	if len(a.idx) == 0 {
		return []modLoc{{comp: a.comp, sort: a.compSort}}
	}
	return []modLoc{{comp: a.comp, sort: a.compSort, idx: a.idx[0]}}
}

func (ex *Exec) evalLocation(se *SpecEnv, e SExpr) *Addr {
	switch x := e.(type) {
	case *SUn:
		if x.Op == "*" {
			v, t := se.eval(x.X)
			pt, ok := types.Unalias(t).Underlying().(*types.Pointer)
			if !ok {
				se.fail(e, "modifies *x: x is not a pointer")
			}
			switch p := v.(type) {
			case *Addr:
				return p
			case *Term:
				if isStructType(pt.Elem()) {
					se.fail(e, "modifies *x for struct pointers: list the fields")
				}
				return ex.cellAddr(p, pt.Elem())
			}
		}
	case *SSel:
		v, t := se.eval(x.X)
		tt := types.Unalias(t)
		if p, ok := tt.Underlying().(*types.Pointer); ok {
			tt = types.Unalias(p.Elem())
		}
		su, ok := tt.Underlying().(*types.Struct)
		if !ok {
			se.fail(e, "modifies x.f: x is not a struct")
		}
		for i := 0; i < su.NumFields(); i++ {
			if su.Field(i).Name() == x.Name {
				switch b := v.(type) {
				case *Term:
					c, cs, ft := ex.fieldComp(tt, i)
					return &Addr{comp: c, compSort: cs, idx: []*Term{b}, typ: ft}
				case *Addr:
					return b // nested: whole enclosing location
				}
			}
		}
		se.fail(e, "modifies: no field %s", x.Name)
	case *SIdent:
		if a := ex.ghostAddr(se.pkg, x.Name); a != nil {
			return a
		}
		// a package-level variable
		if obj, ok := se.pkg.Scope().Lookup(x.Name).(*types.Var); ok {
			g := ex.eng.globalOf(obj)
			return &Addr{comp: globalComp(g), compSort: ex.vc.SortOf(obj.Type()), typ: obj.Type()}
		}
	}
	se.fail(e, "unsupported location in modifies")
	return nil
}

// modifiesComps returns component names a contract's modifies clause touches (for loop scans).
func (ex *Exec) modifiesComps(fc *FuncContract, fn *ssa.Function) []string {
	se := &SpecEnv{ex: ex, pkg: ex.eng.typesPkg(fc.Pkg), names: map[string]specBinding{}, cur: &State{heap: map[string]*Term{}, epoch: "scan"}, reach: TTrue}
	se.old = se.cur
	if fn != nil {
		for _, p := range fn.Params {
			se.names[p.Name()] = specBinding{Sym("scan!"+p.Name(), ex.vc.SortOf(p.Type())), p.Type()}
		}
	} else if fc.sig != nil {
		for i := 0; i < fc.sig.Params().Len(); i++ {
			p := fc.sig.Params().At(i)
			b := specBinding{Sym(fmt.Sprintf("scan!arg%d", i), ex.vc.SortOf(p.Type())), p.Type()}
			if p.Name() != "" && p.Name() != "_" {
				se.names[p.Name()] = b
			}
			se.names[fmt.Sprintf("arg%d", i)] = b
		}
		if fc.recvT != nil {
			se.names["self"] = specBinding{Sym("scan!self", SInt), fc.recvT}
		}
	}
	savedLines := len(ex.vc.lines)
	for _, l := range fc.Lets {
		v, t := se.eval(l.Expr)
		se.names[l.Name] = specBinding{v, t}
	}
	locs, all := ex.evalModifies(fc.Modifies, se)
	ex.vc.lines = ex.vc.lines[:savedLines]
	if all {
		return []string{"*"}
	}
	var out []string
	for _, l := range locs {
		ex.compSorts[l.comp] = l.sort
		out = append(out, l.comp)
	}
	return out
}

// havocLocs havocs the listed locations in st.
func (ex *Exec) havocLocs(st *State, reach *Term, locs []modLoc) {
	byComp := map[string][]modLoc{}
	var order []string
	for _, l := range locs {
		if _, ok := byComp[l.comp]; !ok {
			order = append(order, l.comp)
		}
		byComp[l.comp] = append(byComp[l.comp], l)
	}
	for _, c := range order {
		ls := byComp[c]
		whole := false
		for _, l := range ls {
			if l.idx == nil && l.cond == nil {
				whole = true
			}
		}
		cur := ex.comp(st, c, ls[0].sort)
		if whole {
			st.heap[c] = ex.vc.FreshConst(c, ls[0].sort)
			continue
		}
		for _, l := range ls {
			if l.idx == nil {
				cur = Ite(l.cond, ex.vc.FreshConst(c, l.sort), cur)
				continue
			}
			nv := ex.vc.FreshConst(c+".h", l.sort.ElemSort())
			if l.cond != nil {
				cur = Ite(l.cond, Store(cur, l.idx, nv), cur)
			} else {
				cur = Store(cur, l.idx, nv)
			}
		}
		ex.setComp(st, c, cur)
	}
	for _, c := range order {
		if strings.HasPrefix(c, "MV.") || strings.HasPrefix(c, "MD.") {
			ex.mapWFGlobal(st, "MV."+c[3:])
		}
	}
}

func (ex *Exec) havocAlive(st *State, reach *Term) {
	old := ex.alive(st)
	na := ex.vc.FreshConst("alive", aliveSort)
	r := Sym("r!q", SInt)
	ex.vc.Assume(reach, Forall([]*Term{r}, Implies(Select(old, r), Select(na, r))))
	st.heap["alive"] = na
}

// havocMods: loop-header havoc (component granularity, or location granularity with a loop modifies clause).
func (ex *Exec) havocMods(fr *frame, st *State, reach *Term, ms *modSet, entry *State, lc *LoopContract, header *ssa.BasicBlock) {
	if ms.all {
		oldAlive := ex.alive(st)
		ex.newEpoch(st)
		r := Sym("r!q", SInt)
		ex.vc.Assume(reach, Forall([]*Term{r}, Implies(Select(oldAlive, r), Select(ex.alive(st), r))))
		ex.warn = append(ex.warn, fmt.Sprintf("loop in %s havocs the whole heap", fr.fn))
		return
	}
	var locs []modLoc
	precise := false
	if lc != nil && lc.HasMod {
		se := ex.specEnvFor(fr, entry, entry, reach, header)
		var all bool
		locs, all = ex.evalModifies(lc.Modifies, se)
		precise = !all
	}
	for _, name := range sortedKeys(ms.comps) {
		s := ms.comps[name]
		if s == "" {
			s = ex.compSorts[name]
		}
		if name == "alive" {
			ex.havocAlive(st, reach)
			continue
		}
		old := ex.comp(st, name, s)
		nv := ex.vc.FreshConst(name, s)
		st.heap[name] = nv
		if strings.HasPrefix(name, "MV.") || strings.HasPrefix(name, "MD.") {
			defer ex.mapWFGlobal(st, "MV."+name[3:])
		}
		if !ms.nonfresh[name] && s.IsArray() && s.IndexSort() == SInt && !strings.HasPrefix(name, "IT.") {
			// written only at objects allocated inside the loop: everything that existed at loop entry is unchanged
			r := Sym("r!q", SInt)
			ex.vc.Assume(reach, frameFact(r, []*Term{Select(ex.alive(entry), r)}, Select(ex.alive(entry), r), nv, old))
			continue
		}
		if precise && s.IsArray() && s.IndexSort() == SInt && !strings.HasPrefix(name, "IT.") {
			// locations not listed keep their value (for objects allocated before the loop)
			r := Sym("r!q", SInt)
			var excl []*Term
			whole := false
			for _, l := range locs {
				if l.comp == name {
					if l.idx == nil {
						if l.cond == nil {
							whole = true
						} else {
							excl = append(excl, Not(l.cond))
						}
					} else {
						excl = append(excl, l.excl(r))
					}
				}
			}
			if !whole {
				ex.vc.Assume(reach, frameFact(r, append([]*Term{Select(ex.alive(entry), r)}, excl...), Select(ex.alive(entry), r), nv, old))
			}
		}
	}
}

func (ex *Exec) loopFrameObligations(fr *frame, lc *LoopContract, ms *modSet, entry *State, cur *State, reach *Term, lname string, header *ssa.BasicBlock) {
	if ms.all {
		return
	}
	se := ex.specEnvFor(fr, entry, entry, reach, header)
	locs, all := ex.evalModifies(lc.Modifies, se)
	if all {
		return
	}
	for _, name := range sortedKeys(ms.comps) {
		s := ms.comps[name]
		if s == "" {
			s = ex.compSorts[name]
		}
		if name == "alive" || strings.HasPrefix(name, "IT.") || !s.IsArray() || s.IndexSort() != SInt {
			continue
		}
		r := Sym("r!q", SInt)
		var excl []*Term
		whole := false
		for _, l := range locs {
			if l.comp == name {
				if l.idx == nil {
					if l.cond == nil {
						whole = true
					} else {
						excl = append(excl, Not(l.cond))
					}
				} else {
					excl = append(excl, l.excl(r))
				}
			}
		}
		if whole {
			continue
		}
		goal := Forall([]*Term{r}, Implies(And(append([]*Term{Select(ex.alive(entry), r)}, excl...)...), Eq(Select(ex.comp(cur, name, s), r), Select(ex.comp(entry, name, s), r))))
		ex.vc.Oblige(&Obligation{Name: fmt.Sprintf("%s/frame:%s", lname, name), Kind: "frame", Tags: ex.contractTags(), Guard: reach, Goal: goal, Func: relName(fr.fn)})
	}
}

// ---- spec environments --------------------------------------------------------------------------------

func (ex *Exec) specEnvFor(fr *frame, cur, old *State, reach *Term, at *ssa.BasicBlock) *SpecEnv {
	se := &SpecEnv{ex: ex, names: map[string]specBinding{}, cur: cur, old: old, reach: reach, fr: fr, at: at}
	p := fr.fn
	for p.Parent() != nil {
		p = p.Parent()
	}
	if p.Pkg != nil {
		se.pkg = p.Pkg.Pkg
	}
	for k, v := range fr.lets {
		se.names[k] = v
	}
	return se
}

func (ex *Exec) evalClauseAt(fr *frame, c *Clause, st *State, reach *Term, at *ssa.BasicBlock, lc *LoopContract) *Term {
	old := fr.old
	if old == nil {
		old = st
	}
	se := ex.specEnvFor(fr, st, old, reach, at)
	return se.evalBool(c.Expr)
}

func bindResults(se *SpecEnv, sig *types.Signature, results []Value) {
	res := sig.Results()
	for i := 0; i < res.Len(); i++ {
		r := res.At(i)
		b := specBinding{results[i], r.Type()}
		if r.Name() != "" && r.Name() != "_" {
			se.names[r.Name()] = b
		}
		se.names[fmt.Sprintf("result%d", i)] = b
		if res.Len() == 1 {
			se.names["result"] = b
		}
		if i == res.Len()-1 && r.Name() == "" && r.Type().String() == "error" {
			se.names["err"] = b
		}
	}
}

// ---- applying a contract at a call site ----------------------------------------------------------------------

func (ex *Exec) applyContract(fr *frame, st *State, reach *Term, fn *ssa.Function, fc *FuncContract, args []Value, instr ssa.Instruction) (Value, *Term) {
	pkg := ex.eng.typesPkg(fc.Pkg)
	pre := st.clone()
	se := &SpecEnv{ex: ex, pkg: pkg, names: map[string]specBinding{}, cur: pre, old: pre, reach: reach}
	if len(fn.FreeVars) > 0 && len(ex.callFree) == len(fn.FreeVars) {
		se.freeFn, se.free = fn, ex.callFree
	}
	ex.callFree = nil
	for i, p := range fn.Params {
		se.names[p.Name()] = specBinding{args[i], p.Type()}
	}
	for _, l := range fc.Lets {
		v, t := se.eval(l.Expr)
		if tt, ok := v.(*Term); ok && len(tt.Args) > 0 {
			v = ex.vc.Def("let."+l.Name, tt)
		}
		se.names[l.Name] = specBinding{v, t}
	}
	cname := relName(fn)
	ex.callN[cname]++
	for i, r := range fc.Requires {
		g := se.evalBool(r.Expr)
		ex.vc.Oblige(&Obligation{Name: fmt.Sprintf("%s/call-pre:%s#%d.%d", relName(ex.top), cname, ex.callN[cname], i), Kind: "call-pre", Tags: ex.contractTags(), Guard: reach, Goal: g, Func: relName(ex.top), Pos: ex.posOf(instr), Note: r.Text})
		ex.vc.Assume(reach, g)
	}
	// havoc
	if fc.HasMod {
		locs, all := ex.evalModifies(fc.Modifies, se)
		if all {
			ex.unknownCall(fr, st, reach, cname+" (modifies *)", types.NewTuple(), instr, true)
		} else {
			ex.havocLocs(st, reach, locs)
			ex.havocAlive(st, reach)
		}
	} else {
		ms := newModSet()
		ex.contractMods(fc, fn, ms)
		if ms.all {
			ex.unknownCall(fr, st, reach, cname+" (inferred frame: everything)", types.NewTuple(), instr, true)
		} else {
			for _, name := range sortedKeys(ms.comps) {
				if name == "alive" {
					ex.havocAlive(st, reach)
					continue
				}
				s := ms.comps[name]
				if s == "" {
					s = ex.compSorts[name]
				}
				oldc := ex.comp(st, name, s)
				nv := ex.vc.FreshConst(name, s)
				st.heap[name] = nv
				if strings.HasPrefix(name, "MV.") || strings.HasPrefix(name, "MD.") {
					defer ex.mapWFGlobal(st, "MV."+name[3:])
				}
				if !ms.nonfresh[name] && s.IsArray() && s.IndexSort() == SInt {
					r := Sym("r!q", SInt)
					ex.vc.Assume(reach, frameFact(r, []*Term{Select(ex.alive(pre), r)}, Select(ex.alive(pre), r), nv, oldc))
				}
			}
		}
	}
	// results
	res := fn.Signature.Results()
	var results []Value
	if _, functional := fc.Opts["functional"]; functional {
		// a deterministic, heap-independent function: its results are functions of its arguments
		if rv := ex.functionalResults(st, reach, fn, args); rv != nil {
			results = rv
		}
	}
	if _, abs := fc.Opts["abstract"]; abs {
		// a side-effect free function of its arguments and the listed heap components
		if rv := ex.abstractResults(pre, reach, fn, fc, args); rv != nil {
			results = rv
		}
	}
	if results == nil {
		for i := 0; i < res.Len(); i++ {
			v := ex.vc.FreshConst(cname+".res", ex.vc.SortOf(res.At(i).Type()))
			ex.assumeResultTyping(st, reach, v, res.At(i).Type())
			results = append(results, v)
		}
	}
	post := &SpecEnv{ex: ex, pkg: pkg, names: se.names, cur: st, old: pre, reach: reach, freeFn: se.freeFn, free: se.free}
	bindResults(post, fn.Signature, results)
	for _, e := range fc.Ensures {
		if strings.Contains(e.Text, "$t") {
			// a clause about an SSA register of the callee cannot be stated in the caller's terms: it is proved
			// on the callee but not assumed here (assuming less is sound)
			ex.warn = append(ex.warn, fmt.Sprintf("ensures clause of %s mentioning a callee register is not used at the call site", cname))
			continue
		}
		ex.vc.Assume(reach, post.evalBool(e.Expr))
	}
	if fc.Trusted {
		ex.vc.note("assumed (trusted) contract of " + funcKey(fn))
	}
	return resultValue(results), reach
}

func (ex *Exec) posOf(instr ssa.Instruction) string {
	if instr == nil || !instr.Pos().IsValid() {
		return ""
	}
	return ex.eng.fset.Position(instr.Pos()).String()
}

func (ex *Exec) applyIfaceContract(fr *frame, st *State, reach *Term, c *ssa.CallCommon, fc *FuncContract, recv *Term, args []Value, instr ssa.Instruction) (Value, *Term) {
	pkg := ex.eng.typesPkg(fc.Pkg)
	sig := c.Signature()
	fc.sig = sig
	fc.recvT = c.Value.Type()
	pre := st.clone()
	se := &SpecEnv{ex: ex, pkg: pkg, names: map[string]specBinding{}, cur: pre, old: pre, reach: reach}
	se.names["self"] = specBinding{recv, c.Value.Type()}
	for i := 0; i < sig.Params().Len(); i++ {
		p := sig.Params().At(i)
		name := p.Name()
		if name == "" || name == "_" {
			name = fmt.Sprintf("arg%d", i)
		}
		se.names[name] = specBinding{args[i], p.Type()}
		se.names[fmt.Sprintf("arg%d", i)] = specBinding{args[i], p.Type()}
	}
	cname := fc.Name
	ex.callN[cname]++
	for i, r := range fc.Requires {
		g := se.evalBool(r.Expr)
		ex.vc.Oblige(&Obligation{Name: fmt.Sprintf("%s/call-pre:%s#%d.%d", relName(ex.top), cname, ex.callN[cname], i), Kind: "call-pre", Tags: ex.contractTags(), Guard: reach, Goal: g, Func: relName(ex.top), Pos: ex.posOf(instr), Note: r.Text})
		ex.vc.Assume(reach, g)
	}
	if fc.HasMod {
		locs, all := ex.evalModifies(fc.Modifies, se)
		if all {
			ex.unknownCall(fr, st, reach, cname+" (modifies *)", types.NewTuple(), instr, true)
		} else {
			ex.havocLocs(st, reach, locs)
			ex.havocAlive(st, reach)
		}
	}
	res := sig.Results()
	var results []Value
	for i := 0; i < res.Len(); i++ {
		v := ex.vc.FreshConst(sanitize(cname)+".res", ex.vc.SortOf(res.At(i).Type()))
		ex.assumeResultTyping(st, reach, v, res.At(i).Type())
		results = append(results, v)
	}
	post := &SpecEnv{ex: ex, pkg: pkg, names: se.names, cur: st, old: pre, reach: reach}
	bindResults(post, sig, results)
	for _, e := range fc.Ensures {
		ex.vc.Assume(reach, post.evalBool(e.Expr))
	}
	ex.vc.note("assumed contract of interface method " + cname)
	return resultValue(results), reach
}

// ---- top level: verify one function against its contract ---------------------------------------------------------

type FuncResult struct {
	Func     string
	Key      string
	VC       *VC
	Err      error
	Warnings []string
	Tags     []string
}

func newExec(eng *Engine, vc *VC, fn *ssa.Function, fc *FuncContract) *Exec {
	ex := &Exec{eng: eng, vc: vc, top: fn, topC: fc, compSorts: map[string]Sort{}, callN: map[string]int{}, safeN: map[string]int{}, inlineMax: 5, assertsHit: map[string]bool{}}
	if fc != nil {
		if _, ok := fc.Opts["safety"]; ok {
			ex.safety = true
		}
		if _, ok := fc.Opts["arith-checked"]; ok {
			ex.ovfCheck = true
		}
		if _, ok := fc.Opts["may-panic"]; ok {
			ex.mayPanic = true
		}
		if v, ok := fc.Opts["inline"]; ok {
			n, _ := strconv.Atoi(v)
			ex.inlineMax = n
		}
	}
	return ex
}

func (eng *Engine) VerifyFunc(fn *ssa.Function, fc *FuncContract) (res *FuncResult) {
	mode := ModeMath
	if fc.Opts["ints"] == "bv64" {
		mode = ModeBV
	}
	name := relName(fn)
	vc := NewVC(funcKey(fn), mode, eng.fset)
	res = &FuncResult{Func: name, Key: funcKey(fn), VC: vc}
	seen := map[string]bool{}
	for _, c := range fc.Ensures {
		for _, t := range c.Tags {
			if !seen[t] {
				seen[t] = true
				res.Tags = append(res.Tags, t)
			}
		}
	}
	for _, lc := range fc.Loops {
		for _, c := range lc.Invariants {
			for _, t := range c.Tags {
				if !seen[t] {
					seen[t] = true
					res.Tags = append(res.Tags, t)
				}
			}
		}
	}
	if t, ok := fc.Opts["safety"]; ok && t != "true" {
		for _, x := range splitComma(t) {
			if !seen[x] {
				seen[x] = true
				res.Tags = append(res.Tags, x)
			}
		}
	} else if ok && !seen["C14"] {
		res.Tags = append(res.Tags, "C14")
	}
	if t, ok := fc.Opts["tags"]; ok {
		for _, x := range splitComma(t) {
			if !seen[x] {
				seen[x] = true
				res.Tags = append(res.Tags, x)
			}
		}
	}
	ex := newExec(eng, vc, fn, fc)
	defer func() {
		if r := recover(); r != nil {
			switch e := r.(type) {
			case unsupportedErr:
				res.Err = e
			case specErr:
				res.Err = e
			case error:
				if _, ok := r.(interface{ RuntimeError() }); ok {
					panic(r)
				}
				res.Err = e
			default:
				panic(r)
			}
		}
		res.Warnings = ex.warn
	}()
	if _, abs := fc.Opts["abstract"]; abs {
		ex.checkReads(fn, fc)
	}
	st0 := &State{heap: map[string]*Term{}, epoch: "0"}
	// nil is never an allocated object (freshRef yields references > 0)
	vc.Assume(TTrue, Not(Select(ex.alive(st0), IntLit(0))))
	fr := &frame{fn: fn, env: map[ssa.Value]Value{}, isTop: true, contract: fc, lets: map[string]specBinding{}}
	var args []Value
	for _, p := range fn.Params {
		v := ex.freshValueOfType(st0, TTrue, "p."+p.Name(), p.Type())
		fr.env[p] = v
		args = append(args, v)
	}
	fr.args = args
	for _, fv := range fn.FreeVars {
		// verifying a closure body on its own: free variables are arbitrary cells
		v := ex.freshValueOfType(st0, TTrue, "fv."+fv.Name(), fv.Type())
		if t, ok := v.(*Term); ok && fn.Parent() != nil {
			if _, isPtr := types.Unalias(fv.Type()).Underlying().(*types.Pointer); isPtr {
				// the cell of a captured variable always exists
				vc.Assume(TTrue, Not(Eq(t, IntLit(0))))
			}
		}
		fr.free = append(fr.free, v)
	}
	entry := st0.clone()
	fr.old = entry
	se := ex.specEnvFor(fr, st0, entry, TTrue, nil)
	for _, l := range fc.Lets {
		v, t := se.eval(l.Expr)
		if tt, ok := v.(*Term); ok && len(tt.Args) > 0 {
			v = vc.Def("let."+l.Name, tt)
		}
		fr.lets[l.Name] = specBinding{v, t}
		se.names[l.Name] = specBinding{v, t}
	}
	for _, r := range fc.Requires {
		vc.Assume(TTrue, se.evalBool(r.Expr))
	}
	// the entry state after evaluating requires may have created components lazily in st0; share them
	for k, v := range st0.heap {
		entry.heap[k] = v
	}
	vc.Oblige(&Obligation{Name: name + "/pre-sat", Kind: "pre-sat", Tags: res.Tags, Guard: TTrue, Goal: TFalse, WantSat: true, Func: name, Note: "precondition and typing assumptions are satisfiable (vacuity guard)"})
	ex.stack = nil
	exits := ex.runBody(fr, st0, TTrue)
	for ai, a := range fc.Asserts {
		if !ex.assertsHit[fmt.Sprintf("%s#%d", funcKey(fn), ai)] {
			panic(unsupported(fmt.Sprintf("assert anchor %q (%s:%d) matches no reachable statement of %s", a.Anchor, a.Clause.File, a.Clause.Line, name)))
		}
	}
	nret := 0
	npanic := 0
	var lastCover *Obligation
	defer func() {
		if lastCover != nil {
			lastCover.LastRet = true
		}
	}()
	for _, x := range exits {
		if x.isPanic {
			npanic++
			if ex.safety && !ex.mayPanic {
				vc.Oblige(&Obligation{Name: fmt.Sprintf("%s/safe:panic#%d", name, npanic), Kind: "safe", Tags: ex.safetyTags(), Guard: x.reach, Goal: TFalse, Func: name, Pos: eng.fset.Position(x.pos).String(), Note: "explicit panic is unreachable"})
			}
			continue
		}
		nret++
		post := ex.specEnvFor(fr, x.st, entry, x.reach, nil)
		bindResults(post, fn.Signature, x.results)
		for k, e := range fc.Ensures {
			g := post.evalBool(e.Expr)
			vc.Oblige(&Obligation{Name: fmt.Sprintf("%s/post#%d@ret%d", name, k, nret), Kind: "post", Tags: e.Tags, Guard: x.reach, Goal: g, Func: name, Pos: fmt.Sprintf("%s:%d", e.File, e.Line), Note: e.Text, RetLine: eng.retLine(x.pos)})
		}
		if fc.HasMod {
			ex.frameObligations(fr, fc, entry, x.st, x.reach, fmt.Sprintf("%s/frame@ret%d", name, nret), se)
		}
		{
			// vacuity guard: the return is reachable together with every assumption made on the way
			vc.Oblige(&Obligation{Name: fmt.Sprintf("%s/cover@ret%d", name, nret), Kind: "cover", Tags: res.Tags, Guard: x.reach, Goal: TFalse, WantSat: true, Func: name, Note: "return is reachable under the precondition and all assumed callee contracts (vacuity guard)"})
			lastCover = vc.obls[len(vc.obls)-1]
		}
	}
	return res
}

// frameObligations: every component changed by the body and not covered by modifies is unchanged
// for objects that existed at entry.
func (ex *Exec) frameObligations(fr *frame, fc *FuncContract, entry, final *State, reach *Term, oname string, se *SpecEnv) {
	pre := *se
	pre.cur = entry
	pre.old = entry
	locs, all := ex.evalModifies(fc.Modifies, &pre)
	if all {
		return
	}
	if final.epoch != entry.epoch && len(final.mix) == 0 {
		ex.vc.Oblige(&Obligation{Name: oname + ":havoc", Kind: "frame", Tags: ex.contractTags(), Guard: reach, Goal: TFalse, Func: relName(fr.fn), Note: "body calls code with unknown effects; the modifies clause cannot be established"})
		return
	}
	names := sortedKeys(final.heap)
	if len(final.mix) > 0 {
		names = nil
		for k := range ex.compSorts {
			names = append(names, k)
		}
		sort.Strings(names)
	}
	// components the body writes only at objects it allocated itself (allocation-freshness analysis of the
	// modification scan, the same one that frames loops and uncontracted callees) cannot change an object that
	// existed at entry: no SMT obligation is generated for them
	fresh := ex.freshOnlyComps(fr, final)
	for _, name := range names {
		if name == "alive" || strings.HasPrefix(name, "IT.") {
			continue
		}
		s := ex.compSorts[name]
		cur := ex.comp(final, name, s)
		old := ex.comp(entry, name, s)
		if sameTerm(cur, old) {
			continue
		}
		if fresh[name] && s.IsArray() && s.IndexSort() == SInt {
			ex.vc.note("frame of components written only at objects allocated inside the function is established by the allocation-freshness analysis of the VC generator (no SMT obligation)")
			continue
		}
		whole := false
		var excl []*Term
		r := Sym("r!q", SInt)
		for _, l := range locs {
			if l.comp == name {
				if l.idx == nil {
					if l.cond == nil {
						whole = true
					} else {
						excl = append(excl, Not(l.cond))
					}
				} else {
					excl = append(excl, l.excl(r))
				}
			}
		}
		if whole {
			continue
		}
		var goal *Term
		if s.IsArray() && s.IndexSort() == SInt {
			goal = Forall([]*Term{r}, Implies(And(append([]*Term{Select(ex.alive(entry), r)}, excl...)...), Eq(Select(cur, r), Select(old, r))))
		} else {
			goal = Eq(cur, old)
		}
		ex.vc.Oblige(&Obligation{Name: oname + ":" + name, Kind: "frame", Tags: ex.contractTags(), Guard: reach, Goal: goal, Func: relName(fr.fn), Note: "not listed in modifies"})
	}
}

// ---- lemmas --------------------------------------------------------------------------------------------

func (eng *Engine) VerifyLemma(lm *Lemma) (res *FuncResult) {
	mode := ModeMath
	if lm.Opts["ints"] == "bv64" {
		mode = ModeBV
	}
	name := "lemma:" + lm.Name
	vc := NewVC(lm.Pkg+"."+name, mode, eng.fset)
	res = &FuncResult{Func: name, Key: lm.Pkg + "." + name, VC: vc, Tags: lm.Tags}
	ex := newExec(eng, vc, nil, nil)
	ex.scope = lm.Pkg
	defer func() {
		if r := recover(); r != nil {
			switch e := r.(type) {
			case unsupportedErr:
				res.Err = e
			case specErr:
				res.Err = e
			default:
				panic(r)
			}
		}
		res.Warnings = ex.warn
	}()
	st := &State{heap: map[string]*Term{}, epoch: "0"}
	se := &SpecEnv{ex: ex, pkg: eng.typesPkg(lm.Pkg), names: map[string]specBinding{}, cur: st, old: st, reach: TTrue}
	for _, p := range lm.Params {
		t := eng.parseType(se.pkg, p.Type)
		if t == nil {
			panic(specErr{"unknown type " + p.Type + " in lemma " + lm.Name})
		}
		se.names[p.Name] = specBinding{ex.freshValueOfType(st, TTrue, "p."+p.Name, t), t}
	}
	g := se.evalBool(lm.Expr)
	vc.Oblige(&Obligation{Name: name, Kind: "lemma", Tags: lm.Tags, Guard: TTrue, Goal: g, Func: name, Pos: fmt.Sprintf("%s:%d", lm.File, lm.Line), Note: lm.Text})
	return res
}

func (ex *Exec) functionalResults(st *State, reach *Term, fn *ssa.Function, args []Value) []Value {
	var targs []*Term
	var sorts []string
	for _, a := range args {
		t, ok := a.(*Term)
		if !ok {
			return nil
		}
		targs = append(targs, t)
		sorts = append(sorts, string(t.Sort))
	}
	res := fn.Signature.Results()
	var out []Value
	for i := 0; i < res.Len(); i++ {
		name := fmt.Sprintf("fn.%s.%d", sanitize(funcKey(fn)), i)
		rs := ex.vc.SortOf(res.At(i).Type())
		ex.vc.declare(name, fmt.Sprintf("(declare-fun %s (%s) %s)", name, strings.Join(sorts, " "), rs))
		v := ex.vc.Def(fn.Name()+".res", App(name, rs, targs...))
		ex.assumeResultTyping(st, reach, v, res.At(i).Type())
		out = append(out, v)
	}
	return out
}

// ---- abstract (heap-dependent, side-effect free) functions ---------------------------------------------------
// A function whose contract says `abstract` is used at call sites and in specifications as an uninterpreted
// function of its arguments and of the current values of the heap components listed in its `reads`
// clauses. Verifying the function itself checks `modifies nothing` (obligations) and that every heap read
// of its body (transitively) is within the listed components (static scan).

func (ex *Exec) readsComps(fc *FuncContract) []modLoc {
	se := &SpecEnv{ex: ex, pkg: ex.eng.typesPkg(fc.Pkg), names: map[string]specBinding{}, cur: &State{heap: map[string]*Term{}, epoch: "scan"}, reach: TTrue}
	se.old = se.cur
	var out []modLoc
	for _, c := range fc.Reads {
		for _, part := range splitTop(c.Text, ',') {
			part = strings.TrimSpace(part)
			if part == "" {
				continue
			}
			out = append(out, ex.evalModPart(part, se)...)
		}
	}
	return out
}

func (ex *Exec) abstractResults(st *State, reach *Term, fn *ssa.Function, fc *FuncContract, args []Value) []Value {
	var targs []*Term
	var sorts []string
	for _, a := range args {
		t, ok := a.(*Term)
		if !ok {
			return nil
		}
		targs = append(targs, t)
		sorts = append(sorts, string(t.Sort))
	}
	for _, l := range ex.readsComps(fc) {
		if l.idx != nil {
			panic(specErr{"reads clauses take whole components (comp T.f, maps map[K]V, global v)"})
		}
		ct := ex.comp(st, l.comp, l.sort)
		targs = append(targs, ct)
		sorts = append(sorts, string(ct.Sort))
	}
	res := fn.Signature.Results()
	var out []Value
	for i := 0; i < res.Len(); i++ {
		name := fmt.Sprintf("abs.%s.%d", sanitize(funcKey(fn)), i)
		rs := ex.vc.SortOf(res.At(i).Type())
		ex.vc.declare(name, fmt.Sprintf("(declare-fun %s (%s) %s)", name, strings.Join(sorts, " "), rs))
		out = append(out, App(name, rs, targs...))
	}
	return out
}

// checkReads: static check that the body of an abstract function reads only the listed components.
func (ex *Exec) checkReads(fn *ssa.Function, fc *FuncContract) {
	allowed := map[string]bool{}
	for _, l := range ex.readsComps(fc) {
		allowed[l.comp] = true
	}
	seen := map[*ssa.Function]bool{}
	var bad []string
	var scan func(f *ssa.Function, depth int)
	note := func(comp string, in ssa.Instruction) {
		if !allowed[comp] {
			bad = append(bad, fmt.Sprintf("%s (at %s)", comp, ex.eng.fset.Position(in.Pos())))
		}
	}
	scan = func(f *ssa.Function, depth int) {
		if seen[f] || depth > 12 {
			return
		}
		seen[f] = true
		ms := newModSet()
		for _, b := range f.Blocks {
			for _, in := range b.Instrs {
				switch x := in.(type) {
				case *ssa.UnOp:
					if x.Op != token.MUL {
						continue
					}
					if ms.freshRoot(x.X) {
						continue
					}
					if _, isAlloc := x.X.(*ssa.Alloc); isAlloc {
						continue
					}
					if _, isFree := x.X.(*ssa.FreeVar); isFree {
						continue
					}
					if g, isG := x.X.(*ssa.Global); isG {
						if ex.eng.constFuncGlobal(g) != nil || ex.eng.nonNilGlobal(g) || g.Name() == "log" || g.Name() == "details" {
							continue
						}
					}
					if c, _, ok := ex.addrComp(nil, x.X); ok {
						note(c, in)
					} else {
						t := derefType(x.X.Type())
						if isStructType(t) {
							su := t.Underlying().(*types.Struct)
							for i := 0; i < su.NumFields(); i++ {
								c, _, _ := ex.fieldComp(t, i)
								note(c, in)
							}
						} else {
							c, _ := ex.cellComp(t)
							note(c, in)
						}
					}
				case *ssa.Lookup:
					if mt, ok := types.Unalias(x.X.Type()).Underlying().(*types.Map); ok {
						d, v, _, _, _ := ex.mapComps(mt)
						note(d, in)
						note(v, in)
					}
				case *ssa.Range:
					if mt, ok := types.Unalias(x.X.Type()).Underlying().(*types.Map); ok {
						d, v, _, _, _ := ex.mapComps(mt)
						note(d, in)
						note(v, in)
					}
				case *ssa.Call:
					cc := &x.Call
					if cc.IsInvoke() {
						it := types.Unalias(cc.Value.Type())
						eff := ex.eng.ifaceEffect(it, cc.Method.Name())
						if eff == effNoop || eff == effPure {
							continue
						}
						bad = append(bad, fmt.Sprintf("interface call %s (at %s)", cc.Method.Name(), ex.eng.fset.Position(in.Pos())))
						continue
					}
					if b, ok := cc.Value.(*ssa.Builtin); ok {
						if b.Name() == "len" {
							if mt, ok := types.Unalias(cc.Args[0].Type()).Underlying().(*types.Map); ok {
								_, _, l, _, _ := ex.mapComps(mt)
								note(l, in)
							}
						}
						continue
					}
					callee := cc.StaticCallee()
					if callee == nil {
						if mc, ok := cc.Value.(*ssa.MakeClosure); ok {
							callee = mc.Fn.(*ssa.Function)
						}
					}
					if callee == nil {
						// closures passed down (Foreach helpers): their bodies are scanned where they are made
						continue
					}
					if _, ok := models[callee.String()]; ok {
						continue
					}
					if o := callee.Origin(); o != nil {
						if _, ok := genericModels[o.String()]; ok {
							continue
						}
					}
					if eff := ex.eng.effectOf(callee); eff == effPure || eff == effNoop {
						continue
					}
					if cfc := ex.eng.cs.Funcs[funcKey(callee)]; cfc != nil {
						if _, abs := cfc.Opts["abstract"]; abs {
							for _, l := range ex.readsComps(cfc) {
								note(l.comp, in)
							}
							continue
						}
					}
					if len(callee.Blocks) > 0 {
						scan(callee, depth+1)
					} else {
						bad = append(bad, fmt.Sprintf("call to %s (at %s)", callee, ex.eng.fset.Position(in.Pos())))
					}
				case *ssa.MakeClosure:
					scan(x.Fn.(*ssa.Function), depth+1)
				}
			}
		}
	}
	scan(fn, 0)
	if len(bad) > 0 {
		sort.Strings(bad)
		uniq := bad[:0]
		for i, b := range bad {
			if i == 0 || b != bad[i-1] {
				uniq = append(uniq, b)
			}
		}
		if len(uniq) > 8 {
			uniq = uniq[:8]
		}
		panic(unsupported(fmt.Sprintf("abstract function %s reads state outside its reads clause: %s", relName(fn), strings.Join(uniq, "; "))))
	}
}

// retLine returns the trimmed source text of the line of pos ("" when unknown).
func (eng *Engine) retLine(pos token.Pos) string {
	if !pos.IsValid() {
		return ""
	}
	p := eng.fset.Position(pos)
	return strings.TrimSpace(eng.sourceLine(p.Filename, p.Line))
}

// freshOnlyComps: heap components that the body of fr.fn (including resolved callees) writes only at objects
// allocated inside it, according to the static modification scan; empty when the scan cannot bound the effects.
func (ex *Exec) freshOnlyComps(fr *frame, final *State) map[string]bool {
	if ex.freshScan == nil {
		ex.freshScan = map[*ssa.Function]map[string]bool{}
	}
	if r, ok := ex.freshScan[fr.fn]; ok {
		return r
	}
	out := map[string]bool{}
	ms := newModSet()
	saved := ex.scanState
	ex.scanState = final
	func() {
		defer func() {
			if r := recover(); r != nil {
				ms.all = true // the scan met something it cannot analyse: no component is skipped
			}
		}()
		visiting := map[*ssa.Function]bool{fr.fn: true}
		for _, b := range fr.fn.Blocks {
			for _, in := range b.Instrs {
				ex.scanInstr(fr, in, ms, 0, visiting)
				if ms.all {
					return
				}
			}
		}
	}()
	ex.scanState = saved
	if !ms.all {
		for name := range ms.comps {
			if !ms.nonfresh[name] {
				out[name] = true
			}
		}
	}
	ex.freshScan[fr.fn] = out
	return out
}

// frameFact: "for every object r satisfying guard, component nv agrees with old at r" with two alternative
// triggers: a read of the new component at r, or a known aliveness fact about r.
func frameFact(r *Term, guard []*Term, aliveSel, nv, old *Term) *Term {
	body := Implies(And(guard...), Eq(Select(nv, r), Select(old, r)))
	if NoPatterns || os.Getenv("GOVC_OLDFRAME") != "" {
		return Forall([]*Term{r}, body)
	}
	return &Term{Op: "forall", Bound: []*Term{r}, Args: []*Term{body}, Sort: SBool, Pats: [][]*Term{{Select(nv, r)}, {aliveSel}}}
}
