package main

// Contract files: parsing of //@ blocks and of the specification expression language.

import (
	"fmt"
	"go/types"
	"os"
	"path/filepath"
	"regexp"
	"strconv"
	"strings"
)

// ---- spec expression AST -------------------------------------------------------

type SExpr interface{ spos() string }

type sbase struct{ src string }

func (b sbase) spos() string { return b.src }

type (
	SIdent struct {
		sbase
		Name string
	}
	SLit struct {
		sbase
		Kind string // int, float, string, bool, nil
		Val  string
	}
	SBin struct {
		sbase
		Op   string
		L, R SExpr
	}
	SUn struct {
		sbase
		Op string
		X  SExpr
	}
	SCall struct {
		sbase
		Fun  SExpr
		Args []SExpr
	}
	SSel struct {
		sbase
		X    SExpr
		Name string
	}
	SIndex struct {
		sbase
		X, I SExpr
	}
	SQuant struct {
		sbase
		Forall bool
		Vars   []SVar
		Body   SExpr
	}
	SCond struct {
		sbase
		C, A, B SExpr
	}
	SLet struct {
		sbase
		Name string
		Val  SExpr
		Body SExpr
	}
)

type SVar struct {
	Name string
	Type string
}

// ---- tokenizer ---------------------------------------------------------------------

type tok struct {
	kind string // id, int, float, str, op, eof
	val  string
	pos  int
}

var ops = []string{"<==>", "==>", "&&", "||", "==", "!=", "<=", ">=", "<<", ">>", "&^", "::", "+", "-", "*", "/", "%", "&", "|", "^", "<", ">", "!", ".", ",", "(", ")", "[", "]", "?", ":", "=", "{", "}"}

func tokenize(s string) ([]tok, error) {
	var out []tok
	i := 0
	for i < len(s) {
		c := s[i]
		switch {
		case c == ' ' || c == '\t' || c == '\n':
			i++
		case c >= '0' && c <= '9':
			j := i
			isf := false
			if c == '0' && j+1 < len(s) && (s[j+1] == 'x' || s[j+1] == 'X') {
				j += 2
				for j < len(s) && strings.ContainsRune("0123456789abcdefABCDEF_", rune(s[j])) {
					j++
				}
			} else {
				for j < len(s) && (s[j] >= '0' && s[j] <= '9' || s[j] == '_' || s[j] == '.') {
					if s[j] == '.' {
						if j+1 < len(s) && s[j+1] >= '0' && s[j+1] <= '9' {
							isf = true
						} else {
							break
						}
					}
					j++
				}
			}
			k := "int"
			if isf {
				k = "float"
			}
			out = append(out, tok{k, strings.ReplaceAll(s[i:j], "_", ""), i})
			i = j
		case c == '_' || c >= 'a' && c <= 'z' || c >= 'A' && c <= 'Z' || c == '$':
			j := i
			for j < len(s) && (s[j] == '_' || s[j] == '$' || s[j] >= 'a' && s[j] <= 'z' || s[j] >= 'A' && s[j] <= 'Z' || s[j] >= '0' && s[j] <= '9') {
				j++
			}
			out = append(out, tok{"id", s[i:j], i})
			i = j
		case c == '"':
			j := i + 1
			for j < len(s) && s[j] != '"' {
				if s[j] == '\\' {
					j++
				}
				j++
			}
			if j >= len(s) {
				return nil, fmt.Errorf("unterminated string in %q", s)
			}
			v, err := strconv.Unquote(s[i : j+1])
			if err != nil {
				return nil, err
			}
			out = append(out, tok{"str", v, i})
			i = j + 1
		default:
			matched := false
			for _, o := range ops {
				if strings.HasPrefix(s[i:], o) {
					out = append(out, tok{"op", o, i})
					i += len(o)
					matched = true
					break
				}
			}
			if !matched {
				return nil, fmt.Errorf("bad character %q in spec %q", c, s)
			}
		}
	}
	out = append(out, tok{"eof", "", len(s)})
	return out, nil
}

type sparser struct {
	noIn int
	toks []tok
	p    int
	src  string
}

func ParseSpecExpr(s string) (e SExpr, err error) {
	defer func() {
		if r := recover(); r != nil {
			if pe, ok := r.(parseErr); ok {
				err = fmt.Errorf("spec parse error: %s in %q", string(pe), s)
				return
			}
			panic(r)
		}
	}()
	toks, err := tokenize(s)
	if err != nil {
		return nil, err
	}
	p := &sparser{toks: toks, src: s}
	e = p.expr(0)
	if p.peek().kind != "eof" {
		p.fail("unexpected token " + p.peek().val)
	}
	return e, nil
}

type parseErr string

func (p *sparser) fail(msg string) { panic(parseErr(fmt.Sprintf("%s at offset %d", msg, p.peek().pos))) }
func (p *sparser) peek() tok      { return p.toks[p.p] }
func (p *sparser) next() tok      { t := p.toks[p.p]; p.p++; return t }
func (p *sparser) isOp(o string) bool {
	t := p.peek()
	return t.kind == "op" && t.val == o
}
func (p *sparser) isId(o string) bool {
	t := p.peek()
	return t.kind == "id" && t.val == o
}
func (p *sparser) expectOp(o string) {
	if !p.isOp(o) {
		p.fail("expected " + o + " got " + p.peek().val)
	}
	p.next()
}

// precedence levels
var binPrec = map[string]int{
	"<==>": 1, "==>": 2, "||": 4, "&&": 5,
	"==": 6, "!=": 6, "<": 6, "<=": 6, ">": 6, ">=": 6, "in": 6,
	"+": 7, "-": 7, "|": 7, "^": 7,
	"*": 8, "/": 8, "%": 8, "<<": 8, ">>": 8, "&": 8, "&^": 8,
}

func (p *sparser) binOp() (string, int) {
	t := p.peek()
	if t.kind == "op" {
		if pr, ok := binPrec[t.val]; ok {
			return t.val, pr
		}
	}
	if t.kind == "id" && t.val == "in" && p.noIn == 0 {
		return "in", 6
	}
	return "", 0
}

func (p *sparser) expr(minPrec int) SExpr {
	start := p.peek().pos
	lhs := p.unary()
	for {
		if p.isOp("?") && minPrec <= 3 {
			p.next()
			a := p.expr(3)
			p.expectOp(":")
			b := p.expr(3)
			lhs = &SCond{sbase{p.src[start:p.peek().pos]}, lhs, a, b}
			continue
		}
		op, pr := p.binOp()
		if op == "" || pr < minPrec {
			return lhs
		}
		p.next()
		var rhs SExpr
		if op == "==>" {
			rhs = p.expr(pr) // right assoc
		} else {
			rhs = p.expr(pr + 1)
		}
		lhs = &SBin{sbase{p.src[start:p.peek().pos]}, op, lhs, rhs}
	}
}

func (p *sparser) unary() SExpr {
	start := p.peek().pos
	t := p.peek()
	if t.kind == "op" && (t.val == "!" || t.val == "-" || t.val == "*" || t.val == "^" || t.val == "&") {
		p.next()
		x := p.unary()
		return &SUn{sbase{p.src[start:p.peek().pos]}, t.val, x}
	}
	if t.kind == "id" && (t.val == "forall" || t.val == "exists") {
		p.next()
		var vars []SVar
		for {
			n := p.next()
			if n.kind != "id" {
				p.fail("expected bound variable name")
			}
			// type: tokens until ',' or '::'
			ts := p.peek().pos
			depth := 0
			for {
				tk := p.peek()
				if tk.kind == "eof" {
					p.fail("unterminated quantifier")
				}
				if depth == 0 && tk.kind == "op" && (tk.val == "," || tk.val == "::") {
					break
				}
				if tk.kind == "op" && (tk.val == "[" || tk.val == "(") {
					depth++
				}
				if tk.kind == "op" && (tk.val == "]" || tk.val == ")") {
					depth--
				}
				p.next()
			}
			vars = append(vars, SVar{n.val, strings.TrimSpace(p.src[ts:p.peek().pos])})
			if p.isOp(",") {
				p.next()
				continue
			}
			break
		}
		p.expectOp("::")
		body := p.expr(0)
		return &SQuant{sbase{p.src[start:p.peek().pos]}, t.val == "forall", vars, body}
	}
	if t.kind == "id" && t.val == "let" {
		p.next()
		n := p.next()
		p.expectOp("=")
		p.noIn++
		v := p.expr(3)
		p.noIn--
		if !p.isId("in") {
			p.fail("expected 'in' after let binding")
		}
		p.next()
		body := p.expr(0)
		return &SLet{sbase{p.src[start:p.peek().pos]}, n.val, v, body}
	}
	return p.postfix()
}

func (p *sparser) postfix() SExpr {
	start := p.peek().pos
	x := p.primary()
	for {
		switch {
		case p.isOp("."):
			p.next()
			n := p.next()
			if n.kind == "int" {
				x = &SSel{sbase{p.src[start:p.peek().pos]}, x, "#" + n.val}
				continue
			}
			if n.kind != "id" {
				p.fail("expected field name")
			}
			x = &SSel{sbase{p.src[start:p.peek().pos]}, x, n.val}
		case p.isOp("("):
			p.next()
			var args []SExpr
			for !p.isOp(")") {
				args = append(args, p.expr(0))
				if p.isOp(",") {
					p.next()
				} else {
					break
				}
			}
			p.expectOp(")")
			x = &SCall{sbase{p.src[start:p.peek().pos]}, x, args}
		case p.isOp("["):
			p.next()
			i := p.expr(0)
			p.expectOp("]")
			x = &SIndex{sbase{p.src[start:p.peek().pos]}, x, i}
		default:
			return x
		}
	}
}

func (p *sparser) primary() SExpr {
	t := p.next()
	b := sbase{t.val}
	switch t.kind {
	case "int":
		return &SLit{b, "int", t.val}
	case "float":
		return &SLit{b, "float", t.val}
	case "str":
		return &SLit{b, "string", t.val}
	case "id":
		switch t.val {
		case "true", "false":
			return &SLit{b, "bool", t.val}
		case "nil":
			return &SLit{b, "nil", ""}
		}
		return &SIdent{b, t.val}
	case "op":
		if t.val == "(" {
			saved := p.noIn
			p.noIn = 0
			e := p.expr(0)
			p.noIn = saved
			p.expectOp(")")
			return e
		}
	}
	p.p--
	p.fail("unexpected token " + t.val)
	return nil
}

// ---- contract blocks ---------------------------------------------------------------------

type Clause struct {
	Kind string // requires, ensures, invariant, modifies, decreases, let, assert
	Tags []string
	Text string
	Expr SExpr
	Name string // for let
	File string
	Line int
}

type FuncContract struct {
	Pkg      string // package path
	Name     string // function name as in RelString
	Opts     map[string]string
	Lets     []*Clause
	Requires []*Clause
	Ensures  []*Clause
	Modifies []*Clause
	Reads    []*Clause
	HasMod   bool
	Loops    map[int]*LoopContract
	Asserts  []*AssertClause
	Trusted  bool // assume-contract (from /verif/specs) – never verified
	sig      *types.Signature
	recvT    types.Type
	File     string
	Line     int
}

type AssertClause struct {
	Anchor string
	After  bool // evaluated after the last instruction of the anchored source line (default: before its first)
	Clause *Clause
}

type LoopContract struct {
	Func       string
	Index      int
	Anchor     string
	Invariants []*Clause
	Modifies   []*Clause
	HasMod     bool
	Decreases  *Clause
	File       string
	Line       int
}

type PureFunc struct {
	Pkg    string
	Name   string
	Params []SVar
	Result string
	Body   SExpr
	Text   string
	// axiomatized (uninterpreted) if Body == nil
}

type Lemma struct {
	Params []SVar
	Pkg  string
	Name string
	Tags []string
	Expr SExpr
	Text string
	Opts map[string]string
	File string
	Line int
}

type ContractSet struct {
	Effects   map[string]string        // pkgpath.funcname -> pure|noop (declared classification of unverified helpers)
	Ghosts    map[string]string        // pkgpath.name -> type expression
	FuncTypes map[string]*FuncContract // contracts of named function types; key pkgpath.TypeName
	Funcs  map[string]*FuncContract // key: pkgpath + "." + name
	// Standalone: a second, verified contract of a function whose call sites keep using an assumed
	// (thinner) contract from Funcs: the function is proved against it on its own, callers do not see it
	Standalone map[string]*FuncContract
	Pures  map[string]*PureFunc     // key: pkgpath + "." + name
	Lemmas []*Lemma
	Ifaces map[string]*FuncContract // interface method contracts; key pkgpath.Type.Method
	Files  []string
}

func NewContractSet() *ContractSet {
	return &ContractSet{Effects: map[string]string{}, Ghosts: map[string]string{}, FuncTypes: map[string]*FuncContract{}, Funcs: map[string]*FuncContract{}, Standalone: map[string]*FuncContract{}, Pures: map[string]*PureFunc{}, Ifaces: map[string]*FuncContract{}}
}

var (
	tagRe     = regexp.MustCompile(`^(\w[\w-]*)(\[[A-Za-z0-9_, ]+\])?\s*(.*)$`)
	assertRe  = regexp.MustCompile(`^in\s+(\S+)\s+(at|after)\s+"(.*?)"\s*:\s*(.*)$`)
	keywords  = map[string]bool{"effect": true, "assert": true, "ghost": true, "functype": true, "func": true, "loop": true, "pure": true, "lemma": true, "requires": true, "ensures": true, "modifies": true, "reads": true, "invariant": true, "decreases": true, "let": true, "iface": true, "assume-contract": true, "axiom": true}
	pureRe    = regexp.MustCompile(`^(\w+)\s*\((.*?)\)\s*([^=]*?)\s*(?:=\s*(.*))?$`)
	loopRe    = regexp.MustCompile(`^(\d+)\s+in\s+(\S+)(?:\s+at\s+"(.*)")?\s*$`)
	lemmaRe   = regexp.MustCompile(`^(\w+)\s*(?:\(([^)]*)\))?\s*((?:[\w-]+=\S+\s*)*):\s*(.*)$`)
	funcOptRe = regexp.MustCompile(`^(\S+(?:\)\.\S+)?)\s*(.*)$`)
)

// LoadContracts parses every contract file given; pkgOf maps file → package path.
func (cs *ContractSet) LoadFile(path, pkgPath string, trusted bool) error {
	data, err := os.ReadFile(path)
	if err != nil {
		return err
	}
	cs.Files = append(cs.Files, path)
	type rawClause struct {
		kw, tags, text string
		line           int
	}
	var raws []rawClause
	for i, ln := range strings.Split(string(data), "\n") {
		t := strings.TrimSpace(ln)
		if !strings.HasPrefix(t, "//@") {
			continue
		}
		t = strings.TrimSpace(t[3:])
		if t == "" {
			continue
		}
		if strings.HasPrefix(t, "#") { // comment inside contract block
			continue
		}
		m := tagRe.FindStringSubmatch(t)
		if m != nil && keywords[m[1]] {
			raws = append(raws, rawClause{m[1], strings.Trim(m[2], "[]"), m[3], i + 1})
			continue
		}
		if len(raws) == 0 {
			return fmt.Errorf("%s:%d: continuation line without clause", path, i+1)
		}
		raws[len(raws)-1].text += " " + t
	}
	var curF *FuncContract
	var curL *LoopContract
	splitTags := func(s string) []string {
		var out []string
		for _, x := range strings.Split(s, ",") {
			x = strings.TrimSpace(x)
			if x != "" {
				out = append(out, x)
			}
		}
		return out
	}
	mkClause := func(r rawClause) (*Clause, error) {
		c := &Clause{Kind: r.kw, Tags: splitTags(r.tags), Text: r.text, File: path, Line: r.line}
		txt := r.text
		if r.kw == "let" {
			i := strings.Index(txt, "=")
			if i < 0 {
				return nil, fmt.Errorf("%s:%d: let without =", path, r.line)
			}
			c.Name = strings.TrimSpace(txt[:i])
			txt = txt[i+1:]
		}
		if r.kw != "modifies" && r.kw != "reads" {
			e, err := ParseSpecExpr(txt)
			if err != nil {
				return nil, fmt.Errorf("%s:%d: %v", path, r.line, err)
			}
			c.Expr = e
		}
		return c, nil
	}
	for _, r := range raws {
		switch r.kw {
		case "effect":
			f := strings.Fields(r.text)
			if len(f) != 2 || (f[1] != "pure" && f[1] != "noop") {
				return fmt.Errorf("%s:%d: effect <func> pure|noop", path, r.line)
			}
			key := pkgPath + "." + f[0]
			if strings.Contains(f[0], "/") || strings.HasPrefix(f[0], "std:") {
				key = strings.TrimPrefix(f[0], "std:")
			}
			cs.Effects[key] = f[1]
			curF, curL = nil, nil
		case "ghost":
			f := strings.Fields(r.text)
			if len(f) < 2 {
				return fmt.Errorf("%s:%d: ghost <name> <type>", path, r.line)
			}
			cs.Ghosts[pkgPath+"."+f[0]] = strings.Join(f[1:], " ")
			curF, curL = nil, nil
		case "func", "assume-contract", "iface", "functype":
			m := funcOptRe.FindStringSubmatch(r.text)
			if m == nil {
				return fmt.Errorf("%s:%d: bad func header %q", path, r.line, r.text)
			}
			name, rest := splitFuncName(r.text)
			fc := &FuncContract{Pkg: pkgPath, Name: name, Opts: map[string]string{}, Loops: map[int]*LoopContract{}, File: path, Line: r.line}
			for _, o := range strings.Fields(rest) {
				kv := strings.SplitN(o, "=", 2)
				if len(kv) == 2 {
					fc.Opts[kv[0]] = kv[1]
				} else {
					fc.Opts[kv[0]] = "true"
				}
			}
			fc.Trusted = trusted || r.kw == "assume-contract"
			key := pkgPath + "." + name
			if strings.Contains(name, "/") || strings.HasPrefix(name, "std:") { // fully qualified name given
				name = strings.TrimPrefix(name, "std:")
				key = name
				fc.Name = name
			}
			if r.kw == "iface" {
				// interface-method contracts are assumptions of the package that declares them: they apply
				// only while verifying functions (or lemmas) of that package; contracts from the trusted
				// specs directory apply everywhere
				scope := pkgPath
				if trusted {
					scope = "*"
				}
				if old, ok := cs.Ifaces[scope+"|"+key]; ok {
					return fmt.Errorf("%s:%d: duplicate iface contract for %s (first at %s:%d)", path, r.line, key, old.File, old.Line)
				}
				cs.Ifaces[scope+"|"+key] = fc
			} else if r.kw == "functype" {
				cs.FuncTypes[key] = fc
			} else if fc.Opts["standalone"] != "" && r.kw == "func" {
				if old, ok := cs.Standalone[key]; ok {
					return fmt.Errorf("%s:%d: duplicate standalone contract for %s (first at %s:%d)", path, r.line, key, old.File, old.Line)
				}
				cs.Standalone[key] = fc
			} else {
				if old, ok := cs.Funcs[key]; ok {
					return fmt.Errorf("%s:%d: duplicate contract for %s (first at %s:%d)", path, r.line, key, old.File, old.Line)
				}
				cs.Funcs[key] = fc
			}
			curF, curL = fc, nil
		case "loop":
			m := loopRe.FindStringSubmatch(r.text)
			if m == nil {
				return fmt.Errorf("%s:%d: bad loop header %q", path, r.line, r.text)
			}
			idx, _ := strconv.Atoi(m[1])
			key := pkgPath + "." + m[2]
			fc, ok := cs.Standalone[key]
			if !ok {
				fc, ok = cs.Funcs[key]
			}
			if !ok {
				// loops of an inlined (uncontracted) function: create a shell contract marked "inline-only"
				fc = &FuncContract{Pkg: pkgPath, Name: m[2], Opts: map[string]string{"inline-only": "true"}, Loops: map[int]*LoopContract{}, File: path, Line: r.line}
				cs.Funcs[key] = fc
			}
			lc := &LoopContract{Func: m[2], Index: idx, Anchor: m[3], File: path, Line: r.line}
			fc.Loops[idx] = lc
			curL, curF = lc, fc
		case "assert":
			m := assertRe.FindStringSubmatch(r.text)
			if m == nil {
				return fmt.Errorf("%s:%d: bad assert %q (assert in <func> at \"text\": expr)", path, r.line, r.text)
			}
			key := pkgPath + "." + m[1]
			fc, ok := cs.Standalone[key]
			if !ok {
				fc, ok = cs.Funcs[key]
			}
			if !ok {
				fc = &FuncContract{Pkg: pkgPath, Name: m[1], Opts: map[string]string{"inline-only": "true"}, Loops: map[int]*LoopContract{}, File: path, Line: r.line}
				cs.Funcs[key] = fc
			}
			e, err := ParseSpecExpr(m[4])
			if err != nil {
				return fmt.Errorf("%s:%d: %v", path, r.line, err)
			}
			fc.Asserts = append(fc.Asserts, &AssertClause{Anchor: m[3], After: m[2] == "after", Clause: &Clause{Kind: "assert", Tags: splitTags(r.tags), Text: m[4], Expr: e, File: path, Line: r.line}})
			curF, curL = nil, nil
		case "pure", "axiom":
			m := pureRe.FindStringSubmatch(r.text)
			if m == nil {
				return fmt.Errorf("%s:%d: bad pure func %q", path, r.line, r.text)
			}
			pf := &PureFunc{Pkg: pkgPath, Name: m[1], Result: strings.TrimSpace(m[3]), Text: r.text}
			for _, ps := range splitTop(m[2], ',') {
				ps = strings.TrimSpace(ps)
				if ps == "" {
					continue
				}
				i := strings.IndexAny(ps, " \t")
				if i < 0 {
					return fmt.Errorf("%s:%d: bad param %q", path, r.line, ps)
				}
				pf.Params = append(pf.Params, SVar{ps[:i], strings.TrimSpace(ps[i:])})
			}
			if m[4] != "" {
				e, err := ParseSpecExpr(m[4])
				if err != nil {
					return fmt.Errorf("%s:%d: %v", path, r.line, err)
				}
				pf.Body = e
			}
			cs.Pures[pkgPath+"."+pf.Name] = pf
			curF, curL = nil, nil
		case "lemma":
			m := lemmaRe.FindStringSubmatch(r.text)
			if m == nil {
				return fmt.Errorf("%s:%d: bad lemma %q", path, r.line, r.text)
			}
			e, err := ParseSpecExpr(m[4])
			if err != nil {
				return fmt.Errorf("%s:%d: %v", path, r.line, err)
			}
			lm := &Lemma{Pkg: pkgPath, Name: m[1], Tags: splitTags(r.tags), Expr: e, Text: m[4], Opts: map[string]string{}, File: path, Line: r.line}
			for _, ps := range splitTop(m[2], ',') {
				ps = strings.TrimSpace(ps)
				if ps == "" {
					continue
				}
				i := strings.IndexAny(ps, " \t")
				if i < 0 {
					return fmt.Errorf("%s:%d: bad lemma param %q", path, r.line, ps)
				}
				lm.Params = append(lm.Params, SVar{ps[:i], strings.TrimSpace(ps[i:])})
			}
			for _, o := range strings.Fields(m[3]) {
				kv := strings.SplitN(o, "=", 2)
				if len(kv) == 2 {
					lm.Opts[kv[0]] = kv[1]
				}
			}
			cs.Lemmas = append(cs.Lemmas, lm)
			curF, curL = nil, nil
		default:
			c, err := mkClause(r)
			if err != nil {
				return err
			}
			if curL != nil {
				switch r.kw {
				case "invariant":
					curL.Invariants = append(curL.Invariants, c)
				case "modifies":
					curL.Modifies = append(curL.Modifies, c)
					curL.HasMod = true
				case "decreases":
					curL.Decreases = c
				default:
					return fmt.Errorf("%s:%d: clause %s not allowed in loop block", path, r.line, r.kw)
				}
				continue
			}
			if curF == nil {
				return fmt.Errorf("%s:%d: clause outside func/loop block", path, r.line)
			}
			switch r.kw {
			case "requires":
				curF.Requires = append(curF.Requires, c)
			case "ensures":
				curF.Ensures = append(curF.Ensures, c)
			case "modifies":
				curF.Modifies = append(curF.Modifies, c)
				curF.HasMod = true
			case "reads":
				curF.Reads = append(curF.Reads, c)
			case "let":
				curF.Lets = append(curF.Lets, c)
			default:
				return fmt.Errorf("%s:%d: clause %s not allowed in func block", path, r.line, r.kw)
			}
		}
	}
	return nil
}

// splitFuncName splits "(*T).m opt opt" into name and the rest.
func splitFuncName(s string) (string, string) {
	s = strings.TrimSpace(s)
	i := strings.IndexAny(s, " \t")
	if i < 0 {
		return s, ""
	}
	return s[:i], strings.TrimSpace(s[i:])
}

func splitTop(s string, sep byte) []string {
	var out []string
	depth := 0
	start := 0
	for i := 0; i < len(s); i++ {
		switch s[i] {
		case '(', '[', '{':
			depth++
		case ')', ']', '}':
			depth--
		default:
			if s[i] == sep && depth == 0 {
				out = append(out, s[start:i])
				start = i + 1
			}
		}
	}
	out = append(out, s[start:])
	return out
}

// FindContractFiles returns every verif_contracts*.go under root (repo), mapped to its directory.
func FindContractFiles(root string) ([]string, error) {
	var out []string
	err := filepath.Walk(root, func(p string, info os.FileInfo, err error) error {
		if err != nil {
			return nil
		}
		if info.IsDir() {
			b := filepath.Base(p)
			if b == ".git" || b == "vendor" || b == "node_modules" || b == "testdata" {
				return filepath.SkipDir
			}
			return nil
		}
		if strings.HasPrefix(filepath.Base(p), "verif_contracts") && strings.HasSuffix(p, ".go") {
			out = append(out, p)
		}
		return nil
	})
	return out, err
}
