package main

// Evaluation of specification expressions into SMT terms over a pair of states (old, cur).

import (
	"os"
	"fmt"
	"go/constant"
	"go/token"
	"go/types"
	"math/big"
	"strconv"
	"strings"

	"golang.org/x/tools/go/ssa"
)

type specBinding struct {
	val Value
	typ types.Type
}

type constVal struct{ v *big.Rat }

type SpecEnv struct {
	ex    *Exec
	pkg   *types.Package
	names map[string]specBinding
	cur   *State
	old   *State
	reach *Term
	fr    *frame
	at    *ssa.BasicBlock // for local-variable lookup (loop header)
	beforeIdx int         // >0: program-point assertion before instruction index beforeIdx of block at
	depth int
	// contract of a closure applied at a call site: the closure and the cells of its captured variables
	freeFn *ssa.Function
	free   []Value
}

type specErr struct{ msg string }

func (e specErr) Error() string { return "spec error: " + e.msg }

func (se *SpecEnv) fail(e SExpr, format string, args ...interface{}) {
	panic(specErr{fmt.Sprintf(format, args...) + " in `" + e.spos() + "`"})
}

func (se *SpecEnv) child() *SpecEnv {
	n := *se
	n.names = map[string]specBinding{}
	for k, v := range se.names {
		n.names[k] = v
	}
	return &n
}

var untypedInt = types.Typ[types.UntypedInt]
var untypedFloat = types.Typ[types.UntypedFloat]

func (se *SpecEnv) materialize(v Value, like *Term, t types.Type) *Term {
	switch x := v.(type) {
	case *Term:
		return x
	case *constVal:
		if like != nil && like.Sort == SReal {
			return RealLit(x.v)
		}
		if like != nil && like.Sort == SBV64 {
			if !x.v.IsInt() {
				panic(specErr{"non-integer constant used as bit-vector"})
			}
			return BVLit(x.v.Num())
		}
		if like != nil && like.Sort == SInt {
			if !x.v.IsInt() {
				panic(specErr{"non-integer constant used as Int"})
			}
			return BigLit(x.v.Num())
		}
		if like == nil {
			if x.v.IsInt() {
				if t != nil {
					if b, ok := t.Underlying().(*types.Basic); ok && b.Info()&types.IsFloat != 0 {
						return RealLit(x.v)
					}
				}
				return se.ex.vc.IntBig(x.v.Num())
			}
			return RealLit(x.v)
		}
	}
	panic(specErr{fmt.Sprintf("cannot use %T as a term", v)})
}

func (se *SpecEnv) evalTerm(e SExpr) (*Term, types.Type) {
	v, t := se.eval(e)
	switch x := v.(type) {
	case *Term:
		return x, t
	case *constVal:
		return se.materialize(x, nil, t), t
	case *Addr:
		return se.ex.loadAddr(se.cur, x), t
	}
	se.fail(e, "expression is not first-order (%T)", v)
	return nil, nil
}

func (se *SpecEnv) evalBool(e SExpr) *Term {
	t, _ := se.evalTerm(e)
	if t.Sort != SBool {
		se.fail(e, "expected boolean, got %s", t.Sort)
	}
	return t
}

func (se *SpecEnv) eval(e SExpr) (Value, types.Type) {
	vc := se.ex.vc
	switch x := e.(type) {
	case *SLit:
		switch x.Kind {
		case "int":
			bi, ok := new(big.Int).SetString(x.Val, 0)
			if !ok {
				se.fail(e, "bad integer literal")
			}
			return &constVal{new(big.Rat).SetInt(bi)}, untypedInt
		case "float":
			r, ok := new(big.Rat).SetString(x.Val)
			if !ok {
				se.fail(e, "bad float literal")
			}
			return &constVal{r}, untypedFloat
		case "string":
			return vc.StrLit(x.Val), types.Typ[types.String]
		case "bool":
			if x.Val == "true" {
				return TTrue, types.Typ[types.Bool]
			}
			return TFalse, types.Typ[types.Bool]
		case "nil":
			return IntLit(0), types.Typ[types.UntypedNil]
		}
	case *SIdent:
		return se.ident(x)
	case *SUn:
		switch x.Op {
		case "!":
			return Not(se.evalBool(x.X)), types.Typ[types.Bool]
		case "-":
			v, t := se.eval(x.X)
			if c, ok := v.(*constVal); ok {
				return &constVal{new(big.Rat).Neg(c.v)}, t
			}
			tt := v.(*Term)
			if tt.Sort == SReal {
				return App("-", SReal, tt), t
			}
			return vc.Arith("-", vc.IntConst(0), tt, t), t
		case "*":
			v, t := se.eval(x.X)
			pt, ok := types.Unalias(t).Underlying().(*types.Pointer)
			if !ok {
				se.fail(e, "dereference of non-pointer type %s", t)
			}
			return se.ex.load(se.cur, v, pt.Elem()), pt.Elem()
		case "&":
			v, t := se.eval(x.X)
			if a, ok := v.(*Addr); ok {
				return a, types.NewPointer(t)
			}
			se.fail(e, "cannot take address")
		case "^":
			tt, t := se.evalTerm(x.X)
			if tt.Sort != SBV64 {
				se.fail(e, "^ needs ints=bv64")
			}
			return App("bvnot", SBV64, tt), t
		}
	case *SBin:
		return se.binary(x)
	case *SCond:
		c := se.evalBool(x.C)
		av, at := se.eval(x.A)
		bv, bt := se.eval(x.B)
		a, b, t := se.unify(av, at, bv, bt)
		return Ite(c, a, b), t
	case *SLet:
		v, t := se.eval(x.Val)
		n := se.child()
		if tt, ok := v.(*Term); ok && len(tt.Args) > 0 {
			v = vc.Def("let."+x.Name, tt)
		}
		n.names[x.Name] = specBinding{v, t}
		return n.eval(x.Body)
	case *SQuant:
		n := se.child()
		var bound []*Term
		var guards []*Term
		for _, v := range x.Vars {
			t := se.ex.eng.parseType(se.pkg, v.Type)
			if t == nil {
				se.fail(e, "unknown type %q", v.Type)
			}
			// canonical bound-variable names (name + nesting depth): equal formulas print identically
			bv := Sym(fmt.Sprintf("%s!b%d", sanitize(v.Name), vc.quantDepth+1), vc.SortOf(t))
			bound = append(bound, bv)
			n.names[v.Name] = specBinding{bv, t}
			// typing guards for bound variables: integer ranges
			if b, ok := t.Underlying().(*types.Basic); ok && b.Info()&types.IsInteger != 0 && (intBits(t) < 64 || isUnsigned(t)) {
				// (64-bit signed bound variables range over all mathematical integers: every use is
				// guarded by the body's own bounds; narrower and unsigned types keep their range)
				g := vc.IntRange(bv, t)
				if !IsTrue(g) {
					guards = append(guards, g)
				}
			}
		}
		vc.quantDepth++
		body := func() *Term {
			defer func() { vc.quantDepth-- }()
			return n.evalBool(x.Body)
		}()
		if x.Forall {
			return Forall(bound, Implies(And(guards...), body)), types.Typ[types.Bool]
		}
		return Exists(bound, And(append(guards, body)...)), types.Typ[types.Bool]
	case *SSel:
		return se.selector(x)
	case *SIndex:
		return se.index(x)
	case *SCall:
		return se.callExpr(x)
	}
	se.fail(e, "unsupported spec expression %T", e)
	return nil, nil
}

func isUntyped(t types.Type) bool {
	b, ok := t.(*types.Basic)
	return ok && b.Info()&types.IsUntyped != 0
}

func (se *SpecEnv) unify(av Value, at types.Type, bv Value, bt types.Type) (*Term, *Term, types.Type) {
	switch av.(type) {
	case *Closure, *FuncVal:
		av = se.ex.funcRefOf(av)
	}
	switch bv.(type) {
	case *Closure, *FuncVal:
		bv = se.ex.funcRefOf(bv)
	}
	if a, ok := av.(*Addr); ok {
		av = se.ex.loadAddr(se.cur, a)
	}
	if b, ok := bv.(*Addr); ok {
		bv = se.ex.loadAddr(se.cur, b)
	}
	ac, aIsC := av.(*constVal)
	bc, bIsC := bv.(*constVal)
	switch {
	case aIsC && bIsC:
		t := at
		if !ac.v.IsInt() || !bc.v.IsInt() {
			return RealLit(ac.v), RealLit(bc.v), untypedFloat
		}
		return se.materialize(ac, nil, nil), se.materialize(bc, nil, nil), t
	case aIsC:
		b := bv.(*Term)
		return se.materialize(ac, b, bt), b, bt
	case bIsC:
		a := av.(*Term)
		return a, se.materialize(bc, a, at), at
	}
	a, ok1 := av.(*Term)
	b, ok2 := bv.(*Term)
	if !ok1 || !ok2 {
		panic(specErr{fmt.Sprintf("operands are not first-order (%T, %T)", av, bv)})
	}
	t := at
	if isUntyped(at) {
		t = bt
	}
	return a, b, t
}

func (se *SpecEnv) binary(x *SBin) (Value, types.Type) {
	vc := se.ex.vc
	boolT := types.Typ[types.Bool]
	switch x.Op {
	case "&&":
		return And(se.evalBool(x.L), se.evalBool(x.R)), boolT
	case "||":
		return Or(se.evalBool(x.L), se.evalBool(x.R)), boolT
	case "==>":
		return Implies(se.evalBool(x.L), se.evalBool(x.R)), boolT
	case "<==>":
		return Eq(se.evalBool(x.L), se.evalBool(x.R)), boolT
	case "in":
		k, kt := se.eval(x.L)
		m, mt := se.eval(x.R)
		mterm, ok := m.(*Term)
		if !ok {
			se.fail(x, "right operand of in must be a map, set or slice")
		}
		if isCPUSet(mt) {
			kk := se.materialize(k, Sym("x", SInt), kt)
			return vc.SetOp("member", kk, mterm), boolT
		}
		switch u := types.Unalias(mt).Underlying().(type) {
		case *types.Map:
			kk := se.materialize(k, Sym("x", vc.SortOf(u.Key())), kt)
			return Select(se.ex.mapDom(se.cur, u, mterm), kk), boolT
		case *types.Slice:
			kk := se.materialize(k, Sym("x", vc.SortOf(u.Elem())), kt)
			iq := Sym(fmt.Sprintf("in.i!b%d", vc.quantDepth+1), vc.IntSort())
			it := types.Typ[types.Int]
			arr := se.ex.sliceElems(se.cur, u.Elem(), mterm)
			return Exists([]*Term{iq}, And(vc.Cmp("<=", vc.IntConst(0), iq, it), vc.Cmp("<", iq, vc.SliceLen(mterm), it),
				Eq(vc.SliceAt(arr, vc.SliceOff(mterm), iq), kk))), boolT
		}
		se.fail(x, "in: unsupported container type %s", mt)
	}
	lv, lt := se.eval(x.L)
	rv, rt := se.eval(x.R)
	// constant folding
	if lc, ok := lv.(*constVal); ok {
		if rc, ok := rv.(*constVal); ok {
			r := new(big.Rat)
			switch x.Op {
			case "+":
				return &constVal{r.Add(lc.v, rc.v)}, lt
			case "-":
				return &constVal{r.Sub(lc.v, rc.v)}, lt
			case "*":
				return &constVal{r.Mul(lc.v, rc.v)}, lt
			case "<<":
				if lc.v.IsInt() && rc.v.IsInt() {
					return &constVal{new(big.Rat).SetInt(new(big.Int).Lsh(lc.v.Num(), uint(rc.v.Num().Int64())))}, lt
				}
			case "/":
				if lc.v.IsInt() && rc.v.IsInt() && isUntyped(lt) && lt == untypedInt && rt == untypedInt {
					return &constVal{new(big.Rat).SetInt(new(big.Int).Quo(lc.v.Num(), rc.v.Num()))}, lt
				}
				return &constVal{r.Quo(lc.v, rc.v)}, untypedFloat
			}
		}
	}
	a, b, t := se.unify(lv, lt, rv, rt)
	// slice compared with nil
	if x.Op == "==" || x.Op == "!=" {
		if a.Sort == SSlc && rt == types.Typ[types.UntypedNil] {
			a, b = vc.SlicePtr(a), IntLit(0)
		} else if b.Sort == SSlc && lt == types.Typ[types.UntypedNil] {
			a, b = IntLit(0), vc.SlicePtr(b)
		}
	}
	switch x.Op {
	case "==":
		if a.Sort != b.Sort {
			se.fail(x, "comparison of different sorts %s and %s", a.Sort, b.Sort)
		}
		return Eq(a, b), boolT
	case "!=":
		if a.Sort != b.Sort {
			se.fail(x, "comparison of different sorts %s and %s", a.Sort, b.Sort)
		}
		return Not(Eq(a, b)), boolT
	case "<", "<=", ">", ">=":
		if a.Sort != b.Sort {
			se.fail(x, "comparison of different sorts %s and %s", a.Sort, b.Sort)
		}
		return vc.Cmp(x.Op, a, b, t), boolT
	}
	if a.Sort == SBool {
		se.fail(x, "arithmetic on booleans")
	}
	if a.Sort != b.Sort {
		if x.Op == "<<" || x.Op == ">>" {
			// fine when both ints
		} else {
			se.fail(x, "arithmetic on different sorts %s and %s", a.Sort, b.Sort)
		}
	}
	if a.Sort == SStr && x.Op == "+" {
		return vc.StrCat(a, b), t
	}
	return vc.Arith(x.Op, a, b, t), t
}

func (se *SpecEnv) ident(x *SIdent) (Value, types.Type) {
	if b, ok := se.names[x.Name]; ok {
		return b.val, b.typ
	}
	// local variables of the function (loop invariants)
	if se.fr != nil {
		if v, t, ok := se.ex.lookupLocalAt(se.fr, x.Name, se.at, se.cur, se.beforeIdx); ok {
			return v, t
		}
	}
	if se.freeFn != nil {
		for i, fv := range se.freeFn.FreeVars {
			if fv.Name() == x.Name && i < len(se.free) {
				pt := derefType(fv.Type())
				return se.ex.load(se.cur, se.free[i], pt), pt
			}
		}
	}
	// ghost variables
	if se.pkg != nil {
		if a := se.ex.ghostAddr(se.pkg, x.Name); a != nil {
			return se.ex.loadAddr(se.cur, a), a.typ
		}
	}
	// package scope
	if se.pkg != nil {
		if obj := se.pkg.Scope().Lookup(x.Name); obj != nil {
			return se.objValue(x, obj)
		}
	}
	if obj := types.Universe.Lookup(x.Name); obj != nil {
		if c, ok := obj.(*types.Const); ok {
			return se.constObj(c), c.Type()
		}
	}
	se.fail(x, "unknown identifier %q", x.Name)
	return nil, nil
}

func (se *SpecEnv) constObj(c *types.Const) Value {
	switch c.Val().Kind() {
	case constant.Int:
		bi, _ := new(big.Int).SetString(c.Val().ExactString(), 10)
		return &constVal{new(big.Rat).SetInt(bi)}
	case constant.Float:
		r, _ := new(big.Rat).SetString(c.Val().ExactString())
		return &constVal{r}
	case constant.Bool:
		if constant.BoolVal(c.Val()) {
			return TTrue
		}
		return TFalse
	case constant.String:
		return se.ex.vc.StrLit(constant.StringVal(c.Val()))
	}
	panic(specErr{"unsupported constant " + c.Name()})
}

func (se *SpecEnv) objValue(x SExpr, obj types.Object) (Value, types.Type) {
	switch o := obj.(type) {
	case *types.Const:
		v := se.constObj(o)
		t := o.Type()
		if cv, ok := v.(*constVal); ok && !isUntyped(t) {
			return se.materialize(cv, nil, t), t
		}
		return v, t
	case *types.Var:
		// package-level variable
		g := se.ex.eng.globalOf(o)
		if g == nil {
			se.fail(x, "package variable %s not found in SSA", o.Name())
		}
		a := &Addr{comp: globalComp(g), compSort: se.ex.vc.SortOf(o.Type()), typ: o.Type()}
		return se.ex.loadAddr(se.cur, a), o.Type()
	}
	se.fail(x, "identifier %s is not a value", obj.Name())
	return nil, nil
}

func (se *SpecEnv) selector(x *SSel) (Value, types.Type) {
	// qualified identifier pkg.Name ?
	if id, ok := x.X.(*SIdent); ok {
		if _, bound := se.names[id.Name]; !bound {
			if p := se.ex.eng.importedPkg(se.pkg, id.Name); p != nil {
				if se.fr == nil || !se.ex.hasLocal(se.fr, id.Name) {
					obj := p.Scope().Lookup(x.Name)
					if obj == nil {
						se.fail(x, "%s.%s not found", id.Name, x.Name)
					}
					sub := *se
					sub.pkg = p
					return sub.objValue(x, obj)
				}
			}
		}
	}
	v, t := se.eval(x.X)
	if strings.HasPrefix(x.Name, "#") {
		tup, ok := v.(Tuple)
		tt, ok2 := t.(*types.Tuple)
		i, _ := strconv.Atoi(x.Name[1:])
		if !ok || !ok2 || i >= len(tup) {
			se.fail(x, "tuple index on non-tuple")
		}
		return tup[i], tt.At(i).Type()
	}
	return se.fieldOf(x, v, t, x.Name)
}

func (se *SpecEnv) fieldOf(x SExpr, v Value, t types.Type, name string) (Value, types.Type) {
	vc := se.ex.vc
	tt := types.Unalias(t)
	isPtr := false
	if p, ok := tt.Underlying().(*types.Pointer); ok {
		tt = types.Unalias(p.Elem())
		isPtr = true
	}
	su, ok := tt.Underlying().(*types.Struct)
	if !ok {
		se.fail(x, "selector .%s on non-struct type %s", name, t)
	}
	// find field (including promoted through embedded structs: one level)
	obj, index, _ := types.LookupFieldOrMethod(tt, true, se.pkgOfType(tt), name)
	fv, ok := obj.(*types.Var)
	if !ok || fv == nil {
		se.fail(x, "no field %s in %s", name, tt)
	}
	curV, curT := v, types.Type(tt)
	curPtr := isPtr
	_ = su
	for _, fi := range index {
		cs := types.Unalias(curT).Underlying().(*types.Struct)
		f := cs.Field(fi)
		switch b := curV.(type) {
		case *Term:
			if curPtr {
				c, s, _ := se.ex.fieldComp(curT, fi)
				// value of the field: struct-typed fields stay addresses so nested selection works
				a := &Addr{comp: c, compSort: s, idx: []*Term{b}, typ: f.Type()}
				if isStructType(f.Type()) {
					curV = a
				} else {
					curV = se.ex.loadAddr(se.cur, a)
				}
			} else {
				curV = vc.StructSel(b.Sort, f.Name(), b, vc.SortOf(f.Type()))
			}
		case *Addr:
			na := *b
			na.path = append(append([]pathElem{}, b.path...), pathElem{structSort: vc.SortOf(curT), structT: cs, field: fi})
			na.typ = f.Type()
			if isStructType(f.Type()) {
				curV = &na
			} else {
				curV = se.ex.loadAddr(se.cur, &na)
			}
		default:
			se.fail(x, "selector on %T", curV)
		}
		curT = f.Type()
		curPtr = false
		if p, ok := types.Unalias(curT).Underlying().(*types.Pointer); ok {
			if _, isS := types.Unalias(p.Elem()).Underlying().(*types.Struct); isS {
				curPtr = true
				curT2 := types.Unalias(p.Elem())
				// only deref for continuing through embedded pointers
				if fi != index[len(index)-1] {
					curT = curT2
				}
			}
		}
	}
	// an Addr of struct type is returned as value for further selection; when used as a term it is loaded
	if a, ok := curV.(*Addr); ok && !isStructType(a.typ) {
		return se.ex.loadAddr(se.cur, a), fv.Type()
	}
	return curV, fv.Type()
}

func (se *SpecEnv) pkgOfType(t types.Type) *types.Package {
	if n, ok := t.(*types.Named); ok && n.Obj().Pkg() != nil {
		return n.Obj().Pkg()
	}
	return se.pkg
}

func (se *SpecEnv) index(x *SIndex) (Value, types.Type) {
	vc := se.ex.vc
	cv, ct := se.eval(x.X)
	if a, ok := cv.(*Addr); ok {
		cv = se.ex.loadAddr(se.cur, a)
	}
	c, ok := cv.(*Term)
	if !ok {
		se.fail(x, "index of %T", cv)
	}
	iv, it := se.eval(x.I)
	if sa, ok := ct.(*SpecArr); ok {
		k := se.materialize(iv, Sym("x", vc.SortOf(sa.K)), it)
		return Select(c, k), sa.V
	}
	switch u := types.Unalias(ct).Underlying().(type) {
	case *types.Map:
		k := se.materialize(iv, Sym("x", vc.SortOf(u.Key())), it)
		// the model invariant of maps (keys outside the domain, and every key of the nil map, read as zero)
		// makes the plain read the Go semantics of m[k]
		return Select(se.ex.mapVal(se.cur, u, c), k), u.Elem()
	case *types.Slice:
		i := se.materialize(iv, Sym("x", vc.IntSort()), it)
		arr := se.ex.sliceElems(se.cur, u.Elem(), c)
		return vc.SliceAt(arr, vc.SliceOff(c), i), u.Elem()
	case *types.Array:
		i := se.materialize(iv, Sym("x", vc.IntSort()), it)
		return Select(c, i), u.Elem()
	}
	se.fail(x, "index on type %s", ct)
	return nil, nil
}

// ---- calls in specs -------------------------------------------------------------------------------

func (se *SpecEnv) callExpr(x *SCall) (Value, types.Type) {
	vc := se.ex.vc
	boolT := types.Typ[types.Bool]
	if id, ok := x.Fun.(*SIdent); ok {
		switch id.Name {
		case "old":
			n := *se
			n.cur = se.old
			return n.eval(x.Args[0])
		case "len":
			v, t := se.evalTerm(x.Args[0])
			switch u := types.Unalias(t).Underlying().(type) {
			case *types.Slice:
				return vc.SliceLen(v), types.Typ[types.Int]
			case *types.Map:
				return Ite(Eq(v, IntLit(0)), vc.IntConst(0), se.ex.mapLen(se.cur, u, v)), types.Typ[types.Int]
			case *types.Basic:
				return se.ex.strLen(v), types.Typ[types.Int]
			}
			se.fail(x, "len of %s", t)
		case "fresh":
			v, _ := se.evalTerm(x.Args[0])
			return And(Not(Eq(v, IntLit(0))), Not(Select(se.ex.alive(se.old), v)), Select(se.ex.alive(se.cur), v)), boolT
		case "newobj":
			// allocated during this call (not yet allocated in the old state); for slices: the backing array
			v, t := se.evalTerm(x.Args[0])
			if _, isSlice := types.Unalias(t).Underlying().(*types.Slice); isSlice {
				p := vc.SlicePtr(v)
				return Or(Eq(p, IntLit(0)), Not(Select(se.ex.alive(se.old), p))), boolT
			}
			return Or(Eq(v, IntLit(0)), Not(Select(se.ex.alive(se.old), v))), boolT
		case "alive":
			// for a slice: its backing array is nil or allocated
			v, t := se.evalTerm(x.Args[0])
			if _, isSlice := types.Unalias(t).Underlying().(*types.Slice); isSlice {
				// ... and the slice header is well-formed (0 <= len <= cap, a nil slice is empty): what the engine
				// assumes of every slice value loaded by the code
				p := vc.SlicePtr(v)
				if os.Getenv("GOVC_NOSHAPE") != "" {
					return Or(Eq(p, IntLit(0)), Select(se.ex.alive(se.cur), p)), boolT
				}
				return And(Or(Eq(p, IntLit(0)), Select(se.ex.alive(se.cur), p)), se.ex.sliceShape(v)), boolT
			}
			return Select(se.ex.alive(se.cur), v), boolT
		case "closed":
			// closed(ch): close() has been called on channel ch
			v, t := se.evalTerm(x.Args[0])
			if _, isChan := types.Unalias(t).Underlying().(*types.Chan); !isChan {
				se.fail(x, "closed() of non-channel %s", t)
			}
			return Select(se.ex.comp(se.cur, chanClosedComp, aliveSort), v), boolT
		case "indexin":
			// indexin(s, x): for a list s returned by idset Members(), the position of element x in it
			v, t := se.evalTerm(x.Args[0])
			sl, isSlice := types.Unalias(t).Underlying().(*types.Slice)
			if !isSlice {
				se.fail(x, "indexin() of non-slice %s", t)
			}
			e, _ := se.evalTerm(x.Args[1])
			name := "idset.members.pos"
			vc.declare(name, fmt.Sprintf("(declare-fun %s (Int %s) %s)", name, vc.SortOf(sl.Elem()), vc.IntSort()))
			return App(name, vc.IntSort(), vc.SlicePtr(v), e), types.Typ[types.Int]
		case "base":
			// base(s): the backing array of slice s as an opaque reference (usable with ==, !=, nil, alive, fresh, newobj)
			v, t := se.evalTerm(x.Args[0])
			sl, isSlice := types.Unalias(t).Underlying().(*types.Slice)
			if !isSlice {
				se.fail(x, "base() of non-slice %s", t)
			}
			return vc.SlicePtr(v), types.NewPointer(sl.Elem())
		case "seen":
			// seen(k): key already produced by the map iteration of the loop at hand
			if se.at == nil {
				se.fail(x, "seen() outside loop invariant")
			}
			name := se.ex.iterOfLoop(se.fr, se.at)
			if name == "" {
				se.fail(x, "seen(): loop is not a map range")
			}
			s := se.ex.compSorts[name]
			k, kt := se.eval(x.Args[0])
			kk := se.materialize(k, Sym("x", s.IndexSort()), kt)
			return Select(se.ex.comp(se.cur, name, s), kk), boolT
		case "typeis":
			// typeis(x, T): dynamic type of interface value x is T
			v, _ := se.evalTerm(x.Args[0])
			tn := x.Args[1].spos()
			t := se.ex.eng.parseType(se.pkg, tn)
			if t == nil {
				se.fail(x, "unknown type %s", tn)
			}
			return And(Not(Eq(v, IntLit(0))), Eq(vc.TypeOf(v), vc.TypeTag(t))), boolT
		case "dom", "vals":
			v, t := se.evalTerm(x.Args[0])
			mt, ok := types.Unalias(t).Underlying().(*types.Map)
			if !ok {
				se.fail(x, "%s() of non-map type %s", id.Name, t)
			}
			if id.Name == "dom" {
				return se.ex.mapDom(se.cur, mt, v), &SpecArr{mt.Key(), types.Typ[types.Bool]}
			}
			return se.ex.mapVal(se.cur, mt, v), &SpecArr{mt.Key(), mt.Elem()}
		case "upd":
			av, at := se.evalTerm(x.Args[0])
			sa, ok := at.(*SpecArr)
			if !ok {
				se.fail(x, "upd() needs an arr value")
			}
			kv, kt := se.eval(x.Args[1])
			k := se.materialize(kv, Sym("x", vc.SortOf(sa.K)), kt)
			vv, vt := se.eval(x.Args[2])
			val := se.materialize(vv, Sym("x", vc.SortOf(sa.V)), vt)
			return Store(av, k, val), at
		case "qmilli":
			v, _ := se.evalTerm(x.Args[0])
			vc.declare("k8s.quantity.milli", fmt.Sprintf("(declare-fun k8s.quantity.milli (%s) Int)", v.Sort))
			return App("k8s.quantity.milli", SInt, v), types.Typ[types.Int64]
		case "fs_exists":
			v, _ := se.evalTerm(x.Args[0])
			return Select(se.ex.comp(se.cur, "GH.fs.exists", ArraySort(SStr, SBool)), v), boolT
		case "fs_staterr":
			v, _ := se.evalTerm(x.Args[0])
			return Select(se.ex.comp(se.cur, "GH.fs.staterr", ArraySort(SStr, SBool)), v), boolT
		case "fs_mode":
			v, _ := se.evalTerm(x.Args[0])
			return Select(se.ex.comp(se.cur, "GH.fs.mode", ArraySort(SStr, vc.IntSort())), v), se.ex.eng.parseType(se.ex.eng.typesPkg("os"), "FileMode")
		case "fs_written":
			v, _ := se.evalTerm(x.Args[0])
			return Select(se.ex.comp(se.cur, "GH.fs.written", ArraySort(SStr, SBool)), v), boolT
		case "fs_renames":
			return se.ex.comp(se.cur, "GH.fs.renames", vc.IntSort()), types.Typ[types.Int]
		case "fs_mkdirs":
			return se.ex.comp(se.cur, "GH.fs.mkdirs", vc.IntSort()), types.Typ[types.Int]
		case "fs_rename_from":
			return se.ex.comp(se.cur, "GH.fs.renameFrom", SStr), types.Typ[types.String]
		case "fs_rename_to":
			return se.ex.comp(se.cur, "GH.fs.renameTo", SStr), types.Typ[types.String]
		case "implements":
			v, _ := se.evalTerm(x.Args[0])
			tn := x.Args[1].spos()
			t := se.ex.eng.parseType(se.pkg, tn)
			if t == nil {
				se.fail(x, "unknown type %s", tn)
			}
			name := "implements." + typeKey(types.Unalias(t))
			vc.declare(name, fmt.Sprintf("(declare-fun %s (Int) Bool)", name))
			return And(Not(Eq(v, IntLit(0))), App(name, SBool, vc.TypeOf(v))), boolT
		case "abs":
			v, t := se.evalTerm(x.Args[0])
			return Ite(vc.Cmp(">=", v, se.materialize(&constVal{big.NewRat(0, 1)}, v, t), t), v, vc.Arith("-", se.materialize(&constVal{big.NewRat(0, 1)}, v, t), v, t)), t
		case "setmin":
			v, _ := se.evalTerm(x.Args[0])
			vc.declare("cpuset.min", "(declare-fun cpuset.min ((Set Int)) Int)")
			return App("cpuset.min", SInt, v), types.Typ[types.Int]
		case "singleton":
			v, t := se.eval(x.Args[0])
			return vc.SetOp("singleton", se.materialize(v, Sym("x", SInt), t)), se.ex.eng.cpusetType()
		case "emptyset":
			return vc.EmptySet(), se.ex.eng.cpusetType()
		}
		// a call through a function-valued parameter / local
		if b, bound := se.names[id.Name]; bound {
			if r, t, ok := se.callFuncValue(x, b.val, b.typ, x.Args); ok {
				return r, t
			}
		} else if se.fr != nil {
			if lv, lt, ok := se.ex.lookupLocalAt(se.fr, id.Name, se.at, se.cur, se.beforeIdx); ok {
				if r, t, ok := se.callFuncValue(x, lv, lt, x.Args); ok {
					return r, t
				}
			}
		}
		// conversion T(x)?
		if _, bound := se.names[id.Name]; !bound {
			if t := se.ex.eng.parseType(se.pkg, id.Name); t != nil && len(x.Args) == 1 {
				return se.convert(x, t, x.Args[0])
			}
		}
		// pure spec function
		if pf := se.ex.eng.lookupPure(se.pkg, id.Name); pf != nil {
			return se.applyPure(x, pf)
		}
		// a package-level function variable bound once to a function
		if se.pkg != nil {
			if v, ok := se.pkg.Scope().Lookup(id.Name).(*types.Var); ok {
				if g := se.ex.eng.globalOf(v); g != nil {
					if fn := se.ex.eng.constFuncGlobal(g); fn != nil {
						var args []Value
						for i, a := range x.Args {
							av, t := se.eval(a)
							if i >= fn.Signature.Params().Len() {
								se.fail(x, "too many arguments (variadic functions cannot be called with spread arguments in specifications)")
							}
							pt := fn.Signature.Params().At(i).Type()
							if c, ok := av.(*constVal); ok {
								av = se.materialize(c, Sym("x", vc.SortOf(pt)), t)
							}
							args = append(args, av)
						}
						return se.callReal(x, fn, args)
					}
				}
			}
		}
		// real package-level function
		if se.pkg != nil {
			if obj, ok := se.pkg.Scope().Lookup(id.Name).(*types.Func); ok {
				fn := se.ex.eng.prog.FuncValue(obj)
				var args []Value
				for i, a := range x.Args {
					v, t := se.eval(a)
					if i >= obj.Type().(*types.Signature).Params().Len() {
						se.fail(x, "too many arguments (variadic functions cannot be called with spread arguments in specifications)")
					}
					pt := obj.Type().(*types.Signature).Params().At(i).Type()
					if c, ok := v.(*constVal); ok {
						v = se.materialize(c, Sym("x", vc.SortOf(pt)), t)
					}
					args = append(args, v)
				}
				return se.callReal(x, fn, args)
			}
		}
		se.fail(x, "unknown function %s", id.Name)
	}
	if sel, ok := x.Fun.(*SSel); ok {
		// qualified function pkg.F(...)
		if id, ok := sel.X.(*SIdent); ok {
			if _, bound := se.names[id.Name]; !bound && (se.fr == nil || !se.ex.hasLocal(se.fr, id.Name)) {
				if p := se.ex.eng.importedPkg(se.pkg, id.Name); p != nil {
					obj := p.Scope().Lookup(sel.Name)
					if tn, ok := obj.(*types.TypeName); ok && len(x.Args) == 1 {
						return se.convert(x, tn.Type(), x.Args[0])
					}
					if f, ok := obj.(*types.Func); ok {
						fn := se.ex.eng.prog.FuncValue(f)
						var args []Value
						for i, a := range x.Args {
							v, t := se.eval(a)
							if i >= f.Type().(*types.Signature).Params().Len() {
								se.fail(x, "too many arguments (variadic functions cannot be called with spread arguments in specifications)")
							}
							pt := f.Type().(*types.Signature).Params().At(i).Type()
							if c, ok := v.(*constVal); ok {
								v = se.materialize(c, Sym("x", vc.SortOf(pt)), t)
							}
							args = append(args, v)
						}
						return se.callReal(x, fn, args)
					}
					if pf := se.ex.eng.lookupPure(p, sel.Name); pf != nil {
						sub := *se
						sub.pkg = p
						return sub.applyPureArgs(x, pf, se, x.Args)
					}
					se.fail(x, "%s.%s is not callable", id.Name, sel.Name)
				}
			}
		}
		// method call
		rv, rt := se.eval(sel.X)
		return se.methodCall(x, rv, rt, sel.Name, x.Args)
	}
	se.fail(x, "unsupported call")
	return nil, nil
}

func (se *SpecEnv) convert(x SExpr, t types.Type, arg SExpr) (Value, types.Type) {
	vc := se.ex.vc
	v, vt := se.eval(arg)
	tb, tIsBasic := t.Underlying().(*types.Basic)
	if c, ok := v.(*constVal); ok {
		return se.materialize(c, nil, t), t
	}
	tt := v.(*Term)
	if tIsBasic && tb.Info()&types.IsFloat != 0 && (tt.Sort == SInt) {
		return App("to_real", SReal, tt), t
	}
	if tIsBasic && tb.Info()&types.IsInteger != 0 && tt.Sort == SReal {
		neg := App("-", SInt, App("to_int", SInt, App("-", SReal, tt)))
		return Ite(App(">=", SBool, tt, RealLit(big.NewRat(0, 1))), App("to_int", SInt, tt), neg), t
	}
	if vc.SortOf(t) == tt.Sort {
		return tt, t
	}
	se.fail(x, "unsupported conversion from %s to %s", vt, t)
	return nil, nil
}

func (se *SpecEnv) applyPure(x *SCall, pf *PureFunc) (Value, types.Type) {
	return se.applyPureArgs(x, pf, se, x.Args)
}

func (se *SpecEnv) applyPureArgs(x *SCall, pf *PureFunc, argEnv *SpecEnv, argExprs []SExpr) (Value, types.Type) {
	vc := se.ex.vc
	if len(argExprs) != len(pf.Params) {
		se.fail(x, "pure function %s expects %d arguments", pf.Name, len(pf.Params))
	}
	if se.depth > 20 {
		se.fail(x, "pure function expansion too deep (recursion?)")
	}
	ppkg := se.ex.eng.typesPkg(pf.Pkg)
	n := &SpecEnv{ex: se.ex, pkg: ppkg, names: map[string]specBinding{}, cur: se.cur, old: se.old, reach: se.reach, depth: se.depth + 1}
	var argTerms []*Term
	for i, p := range pf.Params {
		pt := se.ex.eng.parseType(ppkg, p.Type)
		if pt == nil {
			se.fail(x, "unknown type %q in pure function %s", p.Type, pf.Name)
		}
		v, t := argEnv.eval(argExprs[i])
		if c, ok := v.(*constVal); ok {
			v = se.materialize(c, Sym("x", vc.SortOf(pt)), t)
		}
		if a, ok := v.(*Addr); ok && !isStructType(a.typ) {
			v = se.ex.loadAddr(argEnv.cur, a)
		}
		if tt, ok := v.(*Term); ok {
			argTerms = append(argTerms, tt)
			if tt.Sort != vc.SortOf(pt) {
				se.fail(x, "argument %d of %s has sort %s, expected %s", i, pf.Name, tt.Sort, vc.SortOf(pt))
			}
		}
		n.names[p.Name] = specBinding{v, pt}
	}
	rt := se.ex.eng.parseType(ppkg, pf.Result)
	if rt == nil {
		se.fail(x, "unknown result type %q of pure function %s", pf.Result, pf.Name)
	}
	if pf.Body == nil {
		// uninterpreted spec function (state independent)
		var sorts []string
		for _, a := range argTerms {
			sorts = append(sorts, string(a.Sort))
		}
		name := "spec." + sanitize(pf.Pkg) + "." + pf.Name
		vc.declare(name, fmt.Sprintf("(declare-fun %s (%s) %s)", name, strings.Join(sorts, " "), vc.SortOf(rt)))
		return App(name, vc.SortOf(rt), argTerms...), rt
	}
	v, _ := n.eval(pf.Body)
	if c, ok := v.(*constVal); ok {
		v = se.materialize(c, nil, rt)
	}
	return v, rt
}

// callReal evaluates a call to a real Go function as a specification term: the body is executed
// symbolically on a copy of the current state and its result used; effects are discarded.
func (se *SpecEnv) callReal(x SExpr, fn *ssa.Function, args []Value) (Value, types.Type) {
	return se.callRealFree(x, fn, nil, args)
}

func (se *SpecEnv) callRealFree(x SExpr, fn *ssa.Function, free []Value, args []Value) (Value, types.Type) {
	if fn == nil {
		se.fail(x, "function has no SSA body")
	}
	ex := se.ex
	res := fn.Signature.Results()
	var rt types.Type
	if res.Len() == 1 {
		rt = res.At(0).Type()
	} else {
		rt = res
	}
	if m, ok := models[fn.String()]; ok {
		sub := se.cur.clone()
		return m(ex, se.fr, sub, se.reach, args, nil), rt
	}
	if fc := ex.eng.cs.Funcs[funcKey(fn)]; fc != nil && ex.top != fn {
		if _, defines := fc.Opts["defines"]; defines {
			// the function's contract has a defining postcondition `result == E` (proved for the body):
			// in specifications a call means E, evaluated over the callee's parameters and captured variables
			for _, e := range fc.Ensures {
				if b, ok := e.Expr.(*SBin); ok && b.Op == "==" {
					if id, ok := b.L.(*SIdent); ok && id.Name == "result" {
						pf := &frame{fn: fn, env: map[ssa.Value]Value{}, free: free}
						sub := &SpecEnv{ex: ex, pkg: ex.eng.typesPkg(fc.Pkg), names: map[string]specBinding{}, cur: se.cur, old: se.old, reach: se.reach, fr: pf, depth: se.depth + 1}
						for i, p := range fn.Params {
							pf.env[p] = args[i]
							sub.names[p.Name()] = specBinding{args[i], p.Type()}
						}
						v, _ := sub.eval(b.R)
						if c, ok := v.(*constVal); ok {
							v = se.materialize(c, nil, rt)
						}
						return v, rt
					}
				}
			}
		}
	}
	if fc := ex.eng.cs.Funcs[funcKey(fn)]; fc != nil && ex.top != fn {
		if _, abs := fc.Opts["abstract"]; abs {
			if rv := ex.abstractResults(se.cur, se.reach, fn, fc, args); rv != nil {
				return resultValue(rv), rt
			}
		}
	}
	if fc := ex.eng.cs.Funcs[funcKey(fn)]; fc != nil && ex.top != nil && ex.top != fn {
		if _, functional := fc.Opts["functional"]; functional {
			// the same uninterpreted function the call sites of the contract use; its contract's
			// postconditions are assumed for this application as well
			sub := se.cur.clone()
			if rv := ex.functionalResults(sub, se.reach, fn, args); rv != nil {
				if vc := ex.vc; vc.quantDepth == 0 {
					ex.assumeFunctionalEnsures(fn, fc, args, rv, sub)
				}
				return resultValue(rv), rt
			}
		}
	}
	if eff := ex.eng.effectOf(fn); eff == effPure {
		sub := se.cur.clone()
		return ex.pureCall(se.fr, sub, se.reach, fn, args, nil), rt
	}
	sub := se.cur.clone()
	fr := se.fr
	if fr == nil {
		fr = &frame{fn: fn, env: map[ssa.Value]Value{}}
	}
	var exits []*exit
	savedSafety, savedOvf := ex.safety, ex.ovfCheck
	ex.safety, ex.ovfCheck = false, false
	saveTop := ex.stack
	if len(ex.stack) == 0 {
		ex.stack = append(ex.stack, ex.top)
	}
	// a contract on the function is not used here: specs mean the real body
	var v Value
	if ex.canInline(fn) {
		v, _ = ex.inline(fr, sub, se.reach, fn, free, args, nil, &exits)
	} else {
		ex.stack = saveTop
		ex.safety, ex.ovfCheck = savedSafety, savedOvf
		se.fail(x, "cannot evaluate %s in a specification (not inlinable)", fn)
	}
	ex.stack = saveTop
	ex.safety, ex.ovfCheck = savedSafety, savedOvf
	return v, rt
}

func (se *SpecEnv) methodCall(x *SCall, rv Value, rt types.Type, name string, argExprs []SExpr) (Value, types.Type) {
	vc := se.ex.vc
	boolT := types.Typ[types.Bool]
	if a, ok := rv.(*Addr); ok && !isStructType(a.typ) {
		rv = se.ex.loadAddr(se.cur, a)
	}
	if isCPUSet(rt) || (func() bool {
		if p, ok := types.Unalias(rt).Underlying().(*types.Pointer); ok {
			return isCPUSet(p.Elem())
		}
		return false
	})() {
		var recv *Term
		if isCPUSet(rt) {
			recv = rv.(*Term)
		} else {
			recv = se.ex.load(se.cur, rv, derefType(rt)).(*Term)
			rt = derefType(rt)
		}
		var args []*Term
		for _, a := range argExprs {
			v, t := se.eval(a)
			if c, ok := v.(*constVal); ok {
				args = append(args, se.materialize(c, Sym("x", SInt), t))
			} else {
				args = append(args, v.(*Term))
			}
		}
		switch name {
		case "Union":
			return vc.SetOp("union", recv, args[0]), rt
		case "Intersection":
			return vc.SetOp("inter", recv, args[0]), rt
		case "Difference":
			return vc.SetOp("minus", recv, args[0]), rt
		case "Size":
			return vc.SetOp("card", recv), types.Typ[types.Int]
		case "IsEmpty":
			return Eq(recv, vc.EmptySet()), boolT
		case "Equals":
			return Eq(recv, args[0]), boolT
		case "IsSubsetOf":
			return vc.SetOp("subset", recv, args[0]), boolT
		case "Contains":
			return vc.SetOp("member", args[0], recv), boolT
		case "Clone":
			return recv, rt
		}
		se.fail(x, "unsupported cpuset method %s in spec", name)
	}
	// real method
	mset := types.NewMethodSet(rt)
	sel := mset.Lookup(se.pkgOfType(derefNamed(rt)), name)
	if sel == nil {
		if _, ok := types.Unalias(rt).Underlying().(*types.Pointer); !ok {
			mset = types.NewMethodSet(types.NewPointer(rt))
			sel = mset.Lookup(se.pkgOfType(derefNamed(rt)), name)
		}
	}
	if sel == nil {
		se.fail(x, "no method %s on %s", name, rt)
	}
	// interface method with trusted model?
	if _, isIface := types.Unalias(rt).Underlying().(*types.Interface); isIface {
		key := ifaceKey(types.Unalias(rt), name)
		recvT := rv.(*Term)
		var args []Value
		args = append(args, recvT)
		sig := sel.Type().(*types.Signature)
		for i, a := range argExprs {
			v, t := se.eval(a)
			if c, ok := v.(*constVal); ok {
				v = se.materialize(c, Sym("x", vc.SortOf(sig.Params().At(i).Type())), t)
			}
			args = append(args, v)
		}
		var resT types.Type = sig.Results()
		if sig.Results().Len() == 1 {
			resT = sig.Results().At(0).Type()
		}
		if m, ok := ifaceModels[key]; ok {
			sub := se.cur.clone()
			return m(se.ex, se.fr, sub, se.reach, args, nil), resT
		}
		if impl := se.ex.eng.uniqueImplByName(types.Unalias(rt), name); impl != nil {
			return se.callReal(x, impl, args)
		}
		// uninterpreted, state-dependent getters are not supported in specs
		sub := se.cur.clone()
		return se.ex.ufResults(sub, se.reach, "ufi."+sanitize(key), sig.Results(), args, true), resT
	}
	fn := se.ex.eng.prog.MethodValue(sel)
	if fn == nil {
		se.fail(x, "method %s has no SSA function", name)
	}
	sig := fn.Signature
	var args []Value
	// receiver adjust: method expects pointer or value
	recvParamT := sig.Recv().Type()
	_, wantPtr := types.Unalias(recvParamT).Underlying().(*types.Pointer)
	_, havePtr := types.Unalias(rt).Underlying().(*types.Pointer)
	switch {
	case wantPtr == havePtr:
		args = append(args, rv)
	case wantPtr && !havePtr:
		// addressable struct location
		if a, ok := rv.(*Addr); ok {
			args = append(args, a)
		} else {
			se.fail(x, "method %s needs an addressable receiver", name)
		}
	case !wantPtr && havePtr:
		args = append(args, se.ex.load(se.cur, rv, derefType(rt)))
	}
	for i, a := range argExprs {
		v, t := se.eval(a)
		if c, ok := v.(*constVal); ok {
			v = se.materialize(c, Sym("x", vc.SortOf(sig.Params().At(i).Type())), t)
		}
		args = append(args, v)
	}
	return se.callReal(x, fn, args)
}

func derefNamed(t types.Type) types.Type {
	if p, ok := types.Unalias(t).Underlying().(*types.Pointer); ok {
		return types.Unalias(p.Elem())
	}
	return types.Unalias(t)
}

// ---- local variable lookup -------------------------------------------------------------------------------

func (ex *Exec) hasLocal(fr *frame, name string) bool {
	for _, p := range fr.fn.Params {
		if p.Name() == name {
			return true
		}
	}
	for _, p := range fr.fn.FreeVars {
		if p.Name() == name {
			return true
		}
	}
	return false
}

func (ex *Exec) lookupLocal(fr *frame, name string, at *ssa.BasicBlock, st *State) (Value, types.Type, bool) {
	return ex.lookupLocalAt(fr, name, at, st, 0)
}

func (ex *Exec) lookupLocalAt(fr *frame, name string, at *ssa.BasicBlock, st *State, beforeIdx int) (Value, types.Type, bool) {
	fn := fr.fn
	if strings.HasPrefix(name, "$") {
		// an SSA register by name (for anonymous temporaries such as composite literals)
		for _, b := range fn.Blocks {
			for _, in := range b.Instrs {
				if v, ok := in.(ssa.Value); ok && v.Name() == name[1:] {
					if val, ok := fr.env[v]; ok {
						return val, v.Type(), true
					}
				}
			}
		}
		return nil, nil, false
	}
	for _, p := range fn.Params {
		if p.Name() == name {
			if v, ok := fr.env[p]; ok {
				return v, p.Type(), true
			}
		}
	}
	for i, fv := range fn.FreeVars {
		if fv.Name() == name && i < len(fr.free) {
			// free variables are pointers to the captured variable
			pt := derefType(fv.Type())
			return ex.load(st, fr.free[i], pt), pt, true
		}
	}
	if at != nil {
		for _, in := range at.Instrs {
			phi, ok := in.(*ssa.Phi)
			if !ok {
				break
			}
			if phi.Comment == name {
				if v, ok := fr.env[phi]; ok {
					return v, phi.Type(), true
				}
			}
		}
	}
	if at != nil {
		// a phi of an enclosing loop header (closest dominating block)
		var bestPhi *ssa.Phi
		for _, b := range fn.Blocks {
			if b == at || !b.Dominates(at) {
				continue
			}
			for _, in := range b.Instrs {
				phi, ok := in.(*ssa.Phi)
				if !ok {
					break
				}
				if phi.Comment == name {
					if _, have := fr.env[phi]; have {
						if bestPhi == nil || bestPhi.Block().Dominates(b) {
							bestPhi = phi
						}
					}
				}
			}
		}
		if bestPhi != nil && (name == "rangeindex" || name == "rangeiter") {
			return fr.env[bestPhi], bestPhi.Type(), true
		}
	}
	// debug refs
	var best *ssa.DebugRef
	for _, b := range fn.Blocks {
		for ii, in := range b.Instrs {
			if at != nil && b == at && beforeIdx > 0 && ii >= beforeIdx {
				break
			}
			d, ok := in.(*ssa.DebugRef)
			if !ok {
				continue
			}
			id, ok := d.Expr.(interface{ String() string })
			_ = id
			obj := d.Object()
			if obj == nil || obj.Name() != name {
				continue
			}
			if obj.Pkg() != nil && obj.Parent() == obj.Pkg().Scope() {
				// a package-level variable mentioned in the body is not a local: resolve it through the
				// package scope (heap location), so that old(v) and v differ across an assignment to it
				continue
			}
			if _, have := fr.env[d.X]; !have {
				if _, isAlloc := d.X.(*ssa.Alloc); !isAlloc {
					if _, isC := d.X.(*ssa.Const); !isC {
						continue
					}
				} else {
					continue
				}
			}
			if at != nil && !(b.Dominates(at)) {
				continue
			}
			if at != nil && b == at && beforeIdx == 0 {
				continue
			}
			if best == nil || best.Block().Dominates(b) {
				best = d
			}
		}
	}
	if best != nil {
		if _, isConst := best.X.(*ssa.Const); isConst && at != nil {
			// the declaration of `x := expr` carries the zero value; prefer a later binding of the same
			// variable whose value is already available at this point (defined in a dominating block)
			for _, b := range fn.Blocks {
				for _, in := range b.Instrs {
					d, ok := in.(*ssa.DebugRef)
					if !ok || d.Object() != best.Object() || d.IsAddr {
						continue
					}
					xi, ok := d.X.(ssa.Instruction)
					if !ok || xi.Block() == nil {
						continue
					}
					if _, have := fr.env[d.X]; !have {
						continue
					}
					if xi.Block() == at || xi.Block().Dominates(at) {
						if _, bc := best.X.(*ssa.Const); bc || best.X.(ssa.Instruction).Block().Dominates(xi.Block()) {
							best = d
						}
					}
				}
			}
		}
		v := ex.operand(fr, best.X)
		if best.IsAddr {
			pt := derefType(best.X.Type())
			return ex.load(st, v, pt), pt, true
		}
		return v, best.X.Type(), true
	}
	return nil, nil, false
}

// iterOfLoop finds the ghost seen-set of the map range whose Next is in the loop header block.
func (ex *Exec) iterOfLoop(fr *frame, header *ssa.BasicBlock) string {
	for _, in := range header.Instrs {
		if n, ok := in.(*ssa.Next); ok {
			if r, ok := n.Iter.(*ssa.Range); ok {
				return ex.ghostSeen[r]
			}
		}
	}
	return ""
}

var _ = token.NoPos

func (ex *Exec) ghostAddr(pkg *types.Package, name string) *Addr {
	ts, ok := ex.eng.cs.Ghosts[pkg.Path()+"."+name]
	if !ok {
		return nil
	}
	t := ex.eng.parseType(pkg, ts)
	if t == nil {
		panic(specErr{"unknown type " + ts + " of ghost variable " + name})
	}
	return &Addr{comp: "GH." + sanitize(pkg.Path()) + "." + name, compSort: ex.vc.SortOf(t), typ: t}
}

func (ex *Exec) assumeFunctionalEnsures(fn *ssa.Function, fc *FuncContract, args []Value, results []Value, st *State) {
	key := fmt.Sprintf("%s(%v)", funcKey(fn), args)
	if ex.funcAssumed == nil {
		ex.funcAssumed = map[string]bool{}
	}
	if ex.funcAssumed[key] {
		return
	}
	ex.funcAssumed[key] = true
	se := &SpecEnv{ex: ex, pkg: ex.eng.typesPkg(fc.Pkg), names: map[string]specBinding{}, cur: st, old: st, reach: TTrue}
	for i, p := range fn.Params {
		se.names[p.Name()] = specBinding{args[i], p.Type()}
	}
	var pre []*Term
	for _, r := range fc.Requires {
		pre = append(pre, se.evalBool(r.Expr))
	}
	bindResults(se, fn.Signature, results)
	for _, e := range fc.Ensures {
		ex.vc.Assume(And(pre...), se.evalBool(e.Expr))
	}
}

// callFuncValue evaluates f(args) in a specification where f is a function value: a closure or
// function known to the executor is inlined (as a pure term); a symbolic value of a function type
// declared `pure` becomes the same uninterpreted application the code uses.
func (se *SpecEnv) callFuncValue(x *SCall, fv Value, ft types.Type, argExprs []SExpr) (Value, types.Type, bool) {
	sig, ok := types.Unalias(ft).Underlying().(*types.Signature)
	if !ok {
		return nil, nil, false
	}
	vc := se.ex.vc
	var args []Value
	for i, a := range argExprs {
		v, t := se.eval(a)
		if c, ok := v.(*constVal); ok {
			v = se.materialize(c, Sym("x", vc.SortOf(sig.Params().At(i).Type())), t)
		}
		args = append(args, v)
	}
	var rt types.Type = sig.Results()
	if sig.Results().Len() == 1 {
		rt = sig.Results().At(0).Type()
	}
	if t, isT := fv.(*Term); isT && t.IsLeaf() {
		if real, ok := se.ex.funcVals[t.Op]; ok {
			fv = real
		}
	}
	switch f := fv.(type) {
	case *Closure:
		r, _ := se.callRealFree(x, f.fn, f.bindings, args)
		return r, rt, true
	case *FuncVal:
		r, _ := se.callRealFree(x, f.fn, nil, args)
		return r, rt, true
	case *Term:
		if n, ok := types.Unalias(ft).(*types.Named); ok && n.Obj().Pkg() != nil {
			if fc, ok := se.ex.eng.cs.FuncTypes[n.Obj().Pkg().Path()+"."+n.Obj().Name()]; ok {
				if _, pure := fc.Opts["pure"]; pure {
					if rv := se.ex.applyPureFuncValue(n, f, args); rv != nil {
						return rv, rt, true
					}
				}
			}
		}
	}
	se.fail(x, "call through a function value that is neither a known closure nor of a pure function type")
	return nil, nil, false
}
