package main

// Replay of solver counterexamples against the real code (go test -overlay; nothing is written to /repo).

import (
	"bytes"
	"encoding/json"
	"fmt"
	"go/types"
	"math/big"
	"os"
	"os/exec"
	"path/filepath"
	"strings"

	"golang.org/x/tools/go/ssa"
)

func smtValueToGo(v string, t types.Type) (string, bool) {
	v = strings.TrimSpace(v)
	b, ok := t.Underlying().(*types.Basic)
	if !ok {
		return "", false
	}
	switch {
	case b.Info()&types.IsBoolean != 0:
		return v, v == "true" || v == "false"
	case b.Info()&types.IsInteger != 0:
		if strings.HasPrefix(v, "#x") {
			bi, ok := new(big.Int).SetString(v[2:], 16)
			if !ok {
				return "", false
			}
			if !isUnsigned(t) && bi.Bit(63) == 1 {
				bi.Sub(bi, new(big.Int).Lsh(big.NewInt(1), 64))
			}
			return fmt.Sprintf("%s(%s)", types.TypeString(t, func(p *types.Package) string { return p.Name() }), bi.String()), true
		}
		neg := false
		if strings.HasPrefix(v, "(- ") {
			neg = true
			v = strings.TrimSuffix(v[3:], ")")
		}
		bi, ok := new(big.Int).SetString(strings.TrimSpace(v), 10)
		if !ok {
			return "", false
		}
		if neg {
			bi.Neg(bi)
		}
		return bi.String(), true
	}
	return "", false
}

// specToGo translates a scalar specification expression to Go source (subset).
func specToGo(e SExpr, oldNames map[string]bool) (string, bool) {
	switch x := e.(type) {
	case *SLit:
		switch x.Kind {
		case "int", "float", "bool":
			return x.Val, true
		case "string":
			return fmt.Sprintf("%q", x.Val), true
		case "nil":
			return "nil", true
		}
	case *SIdent:
		return x.Name, true
	case *SUn:
		s, ok := specToGo(x.X, oldNames)
		return "(" + x.Op + s + ")", ok && x.Op != "*"
	case *SBin:
		l, ok1 := specToGo(x.L, oldNames)
		r, ok2 := specToGo(x.R, oldNames)
		if !ok1 || !ok2 {
			return "", false
		}
		switch x.Op {
		case "==>":
			return "(!(" + l + ") || (" + r + "))", true
		case "<==>":
			return "((" + l + ") == (" + r + "))", true
		case "in":
			return "", false
		}
		return "(" + l + " " + x.Op + " " + r + ")", true
	case *SCond:
		c, ok1 := specToGo(x.C, oldNames)
		a, ok2 := specToGo(x.A, oldNames)
		b, ok3 := specToGo(x.B, oldNames)
		if !ok1 || !ok2 || !ok3 {
			return "", false
		}
		return fmt.Sprintf("func() int64 { if %s { return int64(%s) }; return int64(%s) }()", c, a, b), true
	case *SLet:
		v, ok1 := specToGo(x.Val, oldNames)
		b, ok2 := specToGo(x.Body, oldNames)
		if !ok1 || !ok2 {
			return "", false
		}
		// tuple-valued binding: uses of x.0, x.1 become x0, x1
		maxIdx := -1
		var scan func(e SExpr)
		scan = func(e SExpr) {
			switch y := e.(type) {
			case *SSel:
				if id, ok := y.X.(*SIdent); ok && id.Name == x.Name && strings.HasPrefix(y.Name, "#") {
					n := int(y.Name[1] - '0')
					if n > maxIdx {
						maxIdx = n
					}
				}
				scan(y.X)
			case *SBin:
				scan(y.L)
				scan(y.R)
			case *SUn:
				scan(y.X)
			case *SCall:
				scan(y.Fun)
				for _, a := range y.Args {
					scan(a)
				}
			case *SCond:
				scan(y.C)
				scan(y.A)
				scan(y.B)
			case *SLet:
				scan(y.Val)
				scan(y.Body)
			}
		}
		scan(x.Body)
		if maxIdx >= 0 {
			var names, uses []string
			for i := 0; i <= maxIdx; i++ {
				names = append(names, fmt.Sprintf("%s%d", x.Name, i))
				uses = append(uses, fmt.Sprintf("_ = %s%d", x.Name, i))
			}
			return fmt.Sprintf("func() bool { %s := %s; %s; return %s }()", strings.Join(names, ", "), v, strings.Join(uses, "; "), b), true
		}
		return fmt.Sprintf("func() bool { %s := %s; _ = %s; return %s }()", x.Name, v, x.Name, b), true
	case *SSel:
		if id, ok := x.X.(*SIdent); ok && strings.HasPrefix(x.Name, "#") {
			return id.Name + x.Name[1:], true
		}
		return "", false
	case *SCall:
		if id, ok := x.Fun.(*SIdent); ok {
			if id.Name == "old" {
				return specToGo(x.Args[0], oldNames)
			}
			var as []string
			for _, a := range x.Args {
				s, ok := specToGo(a, oldNames)
				if !ok {
					return "", false
				}
				as = append(as, s)
			}
			if id.Name == "abs" {
				return fmt.Sprintf("func(v int64) int64 { if v < 0 { return -v }; return v }(int64(%s))", as[0]), true
			}
			return id.Name + "(" + strings.Join(as, ", ") + ")", true
		}
	}
	return "", false
}

func findClause(eng *Engine, o *Obligation, key string) *Clause {
	fc := eng.cs.Funcs[key]
	if fc == nil {
		return nil
	}
	for _, c := range fc.Ensures {
		if fmt.Sprintf("%s:%d", c.File, c.Line) == o.Pos {
			return c
		}
	}
	return nil
}

func writeReplay(eng *Engine, dir, prop string, j *job, repo string) string {
	o := j.o
	r := j.res
	base := filepath.Join(dir, sanitize(prop+"__"+o.Name))
	if len(base) > 200 {
		base = base[:180] + fmt.Sprintf("_%x", hashStr(base))
	}
	txt := base + ".txt"
	var sb strings.Builder
	fmt.Fprintf(&sb, "property: %s\nobligation: %s\nkind: %s\nfunction: %s\nposition: %s\nclause: %s\n", prop, o.Name, o.Kind, j.vc.Name, o.Pos, o.Note)
	fmt.Fprintf(&sb, "solver: %s\nstatus: %s (expected %s)\nseconds: %.2f\nall-solvers: %v\n", r.Solver, r.Status, map[bool]string{true: "sat", false: "unsat"}[o.WantSat], r.Seconds, r.All)
	if len(r.Values) > 0 {
		mv, _ := json.Marshal(r.Values)
		fmt.Fprintf(&sb, "model (parameters): %s\n", mv)
	}
	fmt.Fprintf(&sb, "solver output:\n%s\n", truncate(r.Output, 4000))
	replayed := false
	if r.Status == "sat" && (o.Kind == "post" || o.Kind == "lemma") {
		try := tryScalarReplay
		if o.Kind == "lemma" {
			try = tryLemmaReplay
		}
		if ok, log, testPath := try(eng, base, j, repo); testPath != "" {
			fmt.Fprintf(&sb, "replay test: %s\nreplay result: %s\n%s\n", testPath, map[bool]string{true: "clause FAILS on the real code with the model's input", false: "clause holds on the real code for the model's input (model is spurious w.r.t. an abstraction) or the test could not run"}[ok], truncate(log, 3000))
			replayed = ok
		}
	}
	os.WriteFile(txt, []byte(sb.String()), 0644)
	line := fmt.Sprintf("VIOLATION property=%s replay=%s obligation=%s", prop, txt, o.Name)
	if !replayed {
		line += " no-failing-input-found"
	}
	return line
}

func truncate(s string, n int) string {
	if len(s) > n {
		return s[:n] + "\n…(truncated)"
	}
	return s
}

// tryScalarReplay: functions whose parameters and results are all scalars and whose failed clause
// translates to Go: call the real function with the model's arguments and evaluate the clause.
func tryScalarReplay(eng *Engine, base string, j *job, repo string) (failed bool, log string, testPath string) {
	key := j.vc.Name
	fc := eng.cs.Funcs[key]
	if fc == nil {
		return false, "", ""
	}
	fn := eng.FindFunc(fc.Pkg, fc.Name)
	if fn == nil || fn.Signature.Recv() != nil || fn.Parent() != nil {
		return false, "", ""
	}
	clause := findClause(eng, j.o, key)
	if clause == nil {
		return false, "", ""
	}
	goExpr, ok := specToGo(clause.Expr, nil)
	if !ok {
		return false, "", ""
	}
	var decls []string
	var argNames []string
	for _, p := range fn.Params {
		var val string
		found := false
		for k, v := range j.res.Values {
			if strings.HasPrefix(k, "p."+p.Name()+"!") {
				val, found = smtValueToGo(v, p.Type())
			}
		}
		if !found {
			// parameter not constrained by the model: zero
			if _, ok := p.Type().Underlying().(*types.Basic); !ok {
				return false, "", ""
			}
			val = "0"
			if b := p.Type().Underlying().(*types.Basic); b.Info()&types.IsBoolean != 0 {
				val = "false"
			}
		}
		decls = append(decls, fmt.Sprintf("\tvar %s %s = %s", p.Name(), types.TypeString(p.Type(), func(p *types.Package) string { return p.Name() }), val))
		argNames = append(argNames, p.Name())
	}
	res := fn.Signature.Results()
	var resNames []string
	for i := 0; i < res.Len(); i++ {
		if _, ok := res.At(i).Type().Underlying().(*types.Basic); !ok {
			return false, "", ""
		}
		n := res.At(i).Name()
		if n == "" || n == "_" {
			n = fmt.Sprintf("result%d", i)
			if res.Len() == 1 {
				n = "result"
			}
		}
		resNames = append(resNames, n)
	}
	pkgName := fn.Pkg.Pkg.Name()
	var src bytes.Buffer
	fmt.Fprintf(&src, "package %s\n\nimport \"testing\"\n\n// generated by govc: replay of %s\nfunc TestGovcReplay(t *testing.T) {\n", pkgName, j.o.Name)
	fmt.Fprintln(&src, strings.Join(decls, "\n"))
	src.WriteString(pureFuncsGo(eng, fc.Pkg))
	for _, l := range fc.Lets {
		if g, ok := specToGo(l.Expr, nil); ok {
			fmt.Fprintf(&src, "\t%s := %s\n\t_ = %s\n", l.Name, g, l.Name)
		}
	}
	if len(resNames) > 0 {
		fmt.Fprintf(&src, "\t%s := %s(%s)\n", strings.Join(resNames, ", "), fn.Name(), strings.Join(argNames, ", "))
	} else {
		fmt.Fprintf(&src, "\t%s(%s)\n", fn.Name(), strings.Join(argNames, ", "))
	}
	for _, a := range append(argNames, resNames...) {
		fmt.Fprintf(&src, "\t_ = %s\n", a)
	}
	fmt.Fprintf(&src, "\tt.Logf(\"inputs: %s  outputs: %s\", %s)\n", fmtVerbs(argNames), fmtVerbs(resNames), strings.Join(append(argNames, resNames...), ", "))
	fmt.Fprintf(&src, "\tif !(%s) {\n\t\tt.Fatalf(\"GOVC-CLAUSE-VIOLATED: %%s\", %q)\n\t}\n}\n", goExpr, clause.Text)
	testPath = base + "_test.go"
	os.WriteFile(testPath, src.Bytes(), 0644)
	ok2, out := runOverlayTest(repo, fn, testPath)
	_ = ok2
	return strings.Contains(out, "GOVC-CLAUSE-VIOLATED"), out, testPath
}

func fmtVerbs(names []string) string {
	var out []string
	for _, n := range names {
		out = append(out, n+"=%v")
	}
	return strings.Join(out, " ")
}

func runOverlayTest(repo string, fn *ssa.Function, testPath string) (bool, string) {
	pkgDir := ""
	pos := eng0Position(fn)
	if pos != "" {
		pkgDir = filepath.Dir(pos)
	}
	if pkgDir == "" {
		return false, "cannot locate package directory"
	}
	return runOverlayTestDir(pkgDir, testPath)
}

func runOverlayTestDir(pkgDir string, testPath string) (bool, string) {
	return runOverlayTestNamed(pkgDir, testPath, "^TestGovcReplay$")
}

func runOverlayTestNamed(pkgDir string, testPath string, pattern string) (bool, string) {
	ov := map[string]map[string]string{"Replace": {filepath.Join(pkgDir, "zz_govc_replay_test.go"): testPath}}
	ovData, _ := json.Marshal(ov)
	ovPath := testPath + ".overlay.json"
	os.WriteFile(ovPath, ovData, 0644)
	defer os.Remove(ovPath)
	cmd := exec.Command("go", "test", "-overlay", ovPath, "-tags", "verif", "-vet=off", "-timeout", "300s", "-count=1", "-run", pattern, "-v", ".")
	cmd.Dir = pkgDir
	cmd.Env = append(os.Environ(), "GOFLAGS=-mod=mod", "GOPROXY=off", "GOSUMDB=off", "GOTOOLCHAIN=local")
	out, err := cmd.CombinedOutput()
	return err == nil, string(out)
}

func eng0Position(fn *ssa.Function) string {
	if fn.Pos().IsValid() {
		return fn.Prog.Fset.Position(fn.Pos()).Filename
	}
	return ""
}

// pureFuncsGo renders the package's pure spec functions as Go closures (those that translate).
func pureFuncsGo(eng *Engine, pkg string) string {
	var sb strings.Builder
	for _, k := range sortedKeys(eng.cs.Pures) {
		pf := eng.cs.Pures[k]
		if pf.Pkg != pkg || pf.Body == nil {
			continue
		}
		body, ok := specToGo(pf.Body, nil)
		if !ok {
			continue
		}
		var ps []string
		for _, p := range pf.Params {
			ps = append(ps, p.Name+" "+p.Type)
		}
		conv := body
		if pf.Result != "bool" {
			conv = pf.Result + "(" + body + ")"
		}
		fmt.Fprintf(&sb, "\tvar %s func(%s) %s\n\t%s = func(%s) %s { return %s }\n\t_ = %s\n", pf.Name, strings.Join(ps, ", "), pf.Result, pf.Name, strings.Join(ps, ", "), pf.Result, conv, pf.Name)
	}
	return sb.String()
}

// tryLemmaReplay: lemma over scalar parameters: evaluate the lemma body on the model's values with the real functions.
func tryLemmaReplay(eng *Engine, base string, j *job, repo string) (failed bool, log string, testPath string) {
	var lm *Lemma
	for _, l := range eng.cs.Lemmas {
		if l.Pkg+".lemma:"+l.Name == j.vc.Name {
			lm = l
		}
	}
	if lm == nil || len(lm.Params) == 0 {
		return false, "", ""
	}
	goExpr, ok := specToGo(lm.Expr, nil)
	if !ok {
		return false, "", ""
	}
	pkg := eng.typesPkg(lm.Pkg)
	pp := eng.pkgs[lm.Pkg]
	if pkg == nil || pp == nil || len(pp.GoFiles) == 0 {
		return false, "", ""
	}
	var src bytes.Buffer
	fmt.Fprintf(&src, "package %s\n\nimport \"testing\"\n\n// generated by govc: replay of lemma %s\nfunc TestGovcReplay(t *testing.T) {\n", pkg.Name(), lm.Name)
	var names []string
	for _, p := range lm.Params {
		t := eng.parseType(pkg, p.Type)
		if t == nil {
			return false, "", ""
		}
		val := ""
		found := false
		for k, v := range j.res.Values {
			if strings.HasPrefix(k, "p."+p.Name+"!") {
				val, found = smtValueToGo(v, t)
			}
		}
		if !found {
			return false, "", ""
		}
		fmt.Fprintf(&src, "\tvar %s %s = %s\n\t_ = %s\n", p.Name, p.Type, val, p.Name)
		names = append(names, p.Name)
	}
	src.WriteString(pureFuncsGo(eng, lm.Pkg))
	fmt.Fprintf(&src, "\tt.Logf(\"inputs: %s\", %s)\n", fmtVerbs(names), strings.Join(names, ", "))
	fmt.Fprintf(&src, "\tif !(%s) {\n\t\tt.Fatalf(\"GOVC-CLAUSE-VIOLATED: %%s\", %q)\n\t}\n}\n", goExpr, lm.Text)
	testPath = base + "_test.go"
	os.WriteFile(testPath, src.Bytes(), 0644)
	_, out := runOverlayTestDir(filepath.Dir(pp.GoFiles[0]), testPath)
	return strings.Contains(out, "GOVC-CLAUSE-VIOLATED"), out, testPath
}
