package main

// Trusted models of library functions (T3 in DESIGN.md). Every model used by a VC is
// reported in the evidence file under "assumptions".

import (
	"fmt"
	"go/types"
	"math/big"

	"golang.org/x/tools/go/ssa"
)

type modelFn func(ex *Exec, fr *frame, st *State, reach *Term, args []Value, instr ssa.Instruction) Value

var models = map[string]modelFn{}
var modelMods = map[string]func(ex *Exec, ms *modSet){}
var ifaceModels = map[string]modelFn{}

type genericModelFn func(ex *Exec, fr *frame, st *State, reach *Term, args []Value, instr ssa.Instruction, fn *ssa.Function) Value

var genericModels = map[string]genericModelFn{}
var genericModelMods = map[string]func(ex *Exec, ms *modSet, fn *ssa.Function){}

// sortPermutes: in-place sort = the slice's contents are permuted (the comparator is not interpreted).
func sortPermutes(ex *Exec, st *State, reach *Term, s *Term, elem types.Type) {
	vc := ex.vc
	c, cs := ex.sliceComp(elem)
	base := ex.comp(st, c, cs)
	old := Select(base, vc.SlicePtr(s))
	nw := vc.FreshConst("sorted", cs.ElemSort())
	it := intT()
	iq := Sym("i!q", vc.IntSort())
	jq := Sym("j!q", vc.IntSort())
	off, n := vc.SliceOff(s), vc.SliceLen(s)
	inb := func(i *Term) *Term { return And(vc.Cmp("<=", vc.IntConst(0), i, it), vc.Cmp("<", i, n, it)) }
	at := func(a, i *Term) *Term { return vc.SliceAt(a, off, i) }
	vc.Assume(reach, Forall([]*Term{iq}, Implies(inb(iq), Exists([]*Term{jq}, And(inb(jq), Eq(at(nw, iq), at(old, jq)))))))
	vc.Assume(reach, Forall([]*Term{jq}, Implies(inb(jq), Exists([]*Term{iq}, And(inb(iq), Eq(at(nw, iq), at(old, jq)))))))
	// a permutation preserves the absence of duplicates (same shape as the usual `forall i<j: s[i] != s[j]`)
	ib, jb := Sym("i!b1", vc.IntSort()), Sym("j!b1", vc.IntSort())
	distinct := func(a *Term) *Term {
		return Forall([]*Term{ib, jb}, Implies(And(vc.Cmp("<=", vc.IntConst(0), ib, it), vc.Cmp("<", ib, jb, it), vc.Cmp("<", jb, n, it)), Not(Eq(at(a, ib), at(a, jb)))))
	}
	vc.Assume(reach, Implies(distinct(old), distinct(nw)))
	// outside the slice window nothing changes
	vc.Assume(reach, Forall([]*Term{iq}, Implies(Not(inb(vc.Arith("-", iq, off, it))), Eq(Select(nw, iq), Select(old, iq)))))
	ex.setComp(st, c, Store(base, vc.SlicePtr(s), nw))
	vc.note("sort.Slice / slices.SortFunc / sort.Strings modelled as an arbitrary permutation of the slice (comparator not interpreted)")
}

var ifaceModelMods = map[string]func(ex *Exec, ms *modSet){}

const cs = "(k8s.io/utils/cpuset.CPUSet)."

func intT() types.Type { return types.Typ[types.Int] }

// variadic slice argument with a statically known small length → element terms
func (ex *Exec) variadicElems(st *State, arg Value, elem types.Type, instr ssa.Instruction) ([]*Term, bool) {
	s, ok := arg.(*Term)
	if !ok {
		return nil, false
	}
	n, ok := ex.vc.SliceLen(s).IntVal()
	if !ok || !n.IsInt64() || n.Int64() > 16 {
		return nil, false
	}
	arr := ex.sliceElems(st, elem, s)
	var out []*Term
	for i := int64(0); i < n.Int64(); i++ {
		out = append(out, ex.vc.SliceAt(arr, ex.vc.SliceOff(s), ex.vc.IntConst(i)))
	}
	return out, true
}

func init() {
	note := func(ex *Exec) {
		ex.vc.note("trusted model of k8s.io/utils/cpuset (immutable finite sets of int: Union/Intersection/Difference/Size/IsEmpty/Equals/IsSubsetOf/Contains/Clone/New/List)")
	}
	set := func(name string, f func(ex *Exec, st *State, reach *Term, a []*Term) *Term) {
		models[cs+name] = func(ex *Exec, fr *frame, st *State, reach *Term, args []Value, instr ssa.Instruction) Value {
			note(ex)
			var ts []*Term
			for _, a := range args {
				t, ok := a.(*Term)
				if !ok {
					panic(unsupported("cpuset model argument"))
				}
				ts = append(ts, t)
			}
			return f(ex, st, reach, ts)
		}
	}
	set("Intersection", func(ex *Exec, st *State, reach *Term, a []*Term) *Term { return ex.vc.SetOp("inter", a[0], a[1]) })
	set("Difference", func(ex *Exec, st *State, reach *Term, a []*Term) *Term { return ex.vc.SetOp("minus", a[0], a[1]) })
	set("Size", func(ex *Exec, st *State, reach *Term, a []*Term) *Term { return ex.vc.SetOp("card", a[0]) })
	set("IsEmpty", func(ex *Exec, st *State, reach *Term, a []*Term) *Term { return Eq(a[0], ex.vc.EmptySet()) })
	set("Contains", func(ex *Exec, st *State, reach *Term, a []*Term) *Term { return ex.vc.SetOp("member", a[1], a[0]) })
	set("Equals", func(ex *Exec, st *State, reach *Term, a []*Term) *Term { return Eq(a[0], a[1]) })
	set("IsSubsetOf", func(ex *Exec, st *State, reach *Term, a []*Term) *Term { return ex.vc.SetOp("subset", a[0], a[1]) })
	set("Clone", func(ex *Exec, st *State, reach *Term, a []*Term) *Term { return a[0] })
	models[cs+"Union"] = func(ex *Exec, fr *frame, st *State, reach *Term, args []Value, instr ssa.Instruction) Value {
		note(ex)
		r := args[0].(*Term)
		elems, ok := ex.variadicElems(st, args[1], ex.eng.cpusetType(), instr)
		if !ok {
			ex.unsupportedAt(instr, "cpuset.Union with a variadic argument of unknown length")
		}
		for _, e := range elems {
			r = ex.vc.SetOp("union", r, e)
		}
		return r
	}
	models["k8s.io/utils/cpuset.New"] = func(ex *Exec, fr *frame, st *State, reach *Term, args []Value, instr ssa.Instruction) Value {
		note(ex)
		vc := ex.vc
		if elems, ok := ex.variadicElems(st, args[0], intT(), instr); ok {
			r := vc.EmptySet()
			for _, e := range elems {
				r = vc.SetOp("union", r, vc.SetOp("singleton", e))
			}
			return r
		}
		// general: the set of the slice's elements
		s := args[0].(*Term)
		r := vc.FreshConst("cpuset.New", SSet)
		arr := ex.sliceElems(st, intT(), s)
		iq := Sym("i!q", vc.IntSort())
		xq := Sym("x!q", SInt)
		inb := And(vc.Cmp("<=", vc.IntConst(0), iq, intT()), vc.Cmp("<", iq, vc.SliceLen(s), intT()))
		at := vc.SliceAt(arr, vc.SliceOff(s), iq)
		vc.Assume(reach, Forall([]*Term{iq}, Implies(inb, vc.SetOp("member", at, r))))
		vc.Assume(reach, Forall([]*Term{xq}, Implies(vc.SetOp("member", xq, r), Exists([]*Term{iq}, And(inb, Eq(at, xq))))))
		return r
	}
	// List(): sorted ascending, duplicate free, same elements.  UnsortedList(): same without order.
	list := func(sorted bool) modelFn {
		return func(ex *Exec, fr *frame, st *State, reach *Term, args []Value, instr ssa.Instruction) Value {
			note(ex)
			vc := ex.vc
			set := args[0].(*Term)
			r := ex.freshRef(st, reach, "cpulist")
			c, csort := ex.sliceComp(intT())
			arr := vc.FreshConst("cpulist.arr", csort.ElemSort())
			ex.setComp(st, c, Store(ex.comp(st, c, csort), r, arr))
			n := vc.SetOp("card", set)
			iq := Sym("i!q", SInt)
			jq := Sym("j!q", SInt)
			xq := Sym("x!q", SInt)
			inb := func(i *Term) *Term { return And(App("<=", SBool, IntLit(0), i), App("<", SBool, i, n)) }
			vc.Assume(reach, Forall([]*Term{iq}, Implies(inb(iq), vc.SetOp("member", Select(arr, iq), set))))
			vc.Assume(reach, Forall([]*Term{xq}, Implies(vc.SetOp("member", xq, set), Exists([]*Term{iq}, And(inb(iq), Eq(Select(arr, iq), xq))))))
			if sorted {
				// the first element is the set's minimum (an uninterpreted function of the set)
				vc.declare("cpuset.min", "(declare-fun cpuset.min ((Set Int)) Int)")
				vc.Assume(reach, Implies(App(">", SBool, n, IntLit(0)), And(Eq(Select(arr, IntLit(0)), App("cpuset.min", SInt, set)), vc.SetOp("member", Select(arr, IntLit(0)), set))))
				vc.Assume(reach, Forall([]*Term{iq, jq}, Implies(And(inb(iq), inb(jq), App("<", SBool, iq, jq)), App("<", SBool, Select(arr, iq), Select(arr, jq)))))
			} else {
				vc.Assume(reach, Forall([]*Term{iq, jq}, Implies(And(inb(iq), inb(jq), Not(Eq(iq, jq))), Not(Eq(Select(arr, iq), Select(arr, jq))))))
			}
			return vc.MkSlice(r, vc.IntConst(0), n, n)
		}
	}
	models[cs+"List"] = list(true)
	models[cs+"UnsortedList"] = list(false)
	mm := func(ex *Exec, ms *modSet) {
		c, s := ex.sliceComp(intT())
		ms.addFresh(c, s)
	}
	modelMods[cs+"List"] = mm
	modelMods[cs+"UnsortedList"] = mm
	models[cs+"String"] = func(ex *Exec, fr *frame, st *State, reach *Term, args []Value, instr ssa.Instruction) Value {
		note(ex)
		ex.vc.declare("cpuset.String", "(declare-fun cpuset.String ((Set Int)) Str)")
		ex.vc.note("cpuset.String is an injective uninterpreted function of the set (equal strings <=> equal sets)")
		ex.vc.declare("cpuset.String.inv", "(declare-fun cpuset.String.inv (Str) (Set Int))")
		r := App("cpuset.String", SStr, args[0].(*Term))
		ex.vc.Assume(reach, Eq(App("cpuset.String.inv", SSet, r), args[0].(*Term)))
		return r
	}
	models["k8s.io/utils/cpuset.Parse"] = func(ex *Exec, fr *frame, st *State, reach *Term, args []Value, instr ssa.Instruction) Value {
		note(ex)
		vc := ex.vc
		vc.declare("cpuset.Parse", "(declare-fun cpuset.Parse (Str) (Set Int))")
		vc.declare("cpuset.ParseOk", "(declare-fun cpuset.ParseOk (Str) Bool)")
		s := args[0].(*Term)
		set := App("cpuset.Parse", SSet, s)
		ok := App("cpuset.ParseOk", SBool, s)
		err := vc.FreshConst("parse.err", SInt)
		ex.assumeResultTyping(st, reach, err, types.Universe.Lookup("error").Type())
		vc.Assume(reach, Eq(Eq(err, IntLit(0)), ok))
		ex.assumeAlive(st, reach, vc.Def("parsed", set), ex.eng.cpusetType())
		return Tuple{Ite(ok, set, vc.EmptySet()), err}
	}

	// errors: fresh non-nil references
	freshErr := func(ex *Exec, fr *frame, st *State, reach *Term, args []Value, instr ssa.Instruction) Value {
		return ex.freshRef(st, reach, "err")
	}
	models["fmt.Errorf"] = freshErr
	models["errors.New"] = freshErr
	models["fmt.Sprintf"] = func(ex *Exec, fr *frame, st *State, reach *Term, args []Value, instr ssa.Instruction) Value {
		ex.vc.drop("fmt.Sprintf: result is an unconstrained string")
		return ex.vc.FreshConst("sprintf", SStr)
	}
	models["fmt.Sprint"] = models["fmt.Sprintf"]
	models["math/bits.OnesCount64"] = func(ex *Exec, fr *frame, st *State, reach *Term, args []Value, instr ssa.Instruction) Value {
		x := args[0].(*Term)
		if x.Sort != SBV64 {
			ex.unsupportedAt(instr, "bits.OnesCount64 needs ints=bv64")
		}
		var sum *Term
		for i := 0; i < 64; i++ {
			bit := &Term{Op: fmt.Sprintf("((_ zero_extend 63) ((_ extract %d %d) %s))", i, i, x.String()), Sort: SBV64}
			if sum == nil {
				sum = bit
			} else {
				sum = App("bvadd", SBV64, sum, bit)
			}
		}
		return ex.vc.Def("popcnt", sum)
	}
	// process exit: no continuation
	for _, n := range []string{"(github.com/containers/nri-plugins/pkg/log.Logger).Fatalf", "(github.com/containers/nri-plugins/pkg/log.Logger).Fatal", "os.Exit", "github.com/containers/nri-plugins/pkg/log.Fatalf", "github.com/containers/nri-plugins/pkg/log.Fatal"} {
		models[n] = func(ex *Exec, fr *frame, st *State, reach *Term, args []Value, instr ssa.Instruction) Value {
			ex.vc.Assume(reach, TFalse)
			return nil
		}
	}
	ifaceModels["github.com/containers/nri-plugins/pkg/log.Logger.Fatalf"] = func(ex *Exec, fr *frame, st *State, reach *Term, args []Value, instr ssa.Instruction) Value {
		ex.vc.Assume(reach, TFalse)
		return nil
	}
	ifaceModels["github.com/containers/nri-plugins/pkg/log.Logger.Fatal"] = ifaceModels["github.com/containers/nri-plugins/pkg/log.Logger.Fatalf"]
	// ---- file system (ghost trace): T3 ----------------------------------------------------------
	fsNote := func(ex *Exec) {
		ex.vc.note("trusted model of os.Lstat/WriteFile/Rename/MkdirAll: results are arbitrary; WriteFile(p) marks p as written (ghost), Rename(a,b) records the rename (ghost); rename atomicity is the kernel's")
	}
	models["os.Lstat"] = func(ex *Exec, fr *frame, st *State, reach *Term, args []Value, instr ssa.Instruction) Value {
		fsNote(ex)
		vc := ex.vc
		path := args[0].(*Term)
		info := vc.FreshConst("lstat.info", SInt)
		err := vc.FreshConst("lstat.err", SInt)
		errT := types.Universe.Lookup("error").Type()
		ex.assumeResultTyping(st, reach, info, errT)
		ex.assumeResultTyping(st, reach, err, errT)
		exists := Select(ex.comp(st, "GH.fs.exists", ArraySort(SStr, SBool)), path)
		staterr := Select(ex.comp(st, "GH.fs.staterr", ArraySort(SStr, SBool)), path)
		mode := Select(ex.comp(st, "GH.fs.mode", ArraySort(SStr, vc.IntSort())), path)
		vc.Assume(reach, Eq(Not(Eq(err, IntLit(0))), Or(staterr, Not(exists))))
		vc.Assume(reach, Eq(Eq(err, IntLit(0)), Not(Eq(info, IntLit(0)))))
		vc.declare("errors.Is", "(declare-fun errors.Is (Int Int) Bool)")
		vc.Assume(reach, Eq(App("errors.Is", SBool, err, ex.comp(st, "G.os.ErrNotExist", SInt)), And(Not(staterr), Not(exists))))
		vc.declare("fileinfo.mode", fmt.Sprintf("(declare-fun fileinfo.mode (Int) %s)", vc.IntSort()))
		vc.Assume(reach, Implies(Not(Eq(info, IntLit(0))), Eq(App("fileinfo.mode", vc.IntSort(), info), mode)))
		return Tuple{info, err}
	}
	models["os.Stat"] = models["os.Lstat"]
	models["errors.Is"] = func(ex *Exec, fr *frame, st *State, reach *Term, args []Value, instr ssa.Instruction) Value {
		ex.vc.declare("errors.Is", "(declare-fun errors.Is (Int Int) Bool)")
		return App("errors.Is", SBool, args[0].(*Term), args[1].(*Term))
	}
	ifaceModels["io/fs.FileInfo.Mode"] = func(ex *Exec, fr *frame, st *State, reach *Term, args []Value, instr ssa.Instruction) Value {
		fsNote(ex)
		name := "fileinfo.mode"
		ex.vc.declare(name, fmt.Sprintf("(declare-fun %s (Int) %s)", name, ex.vc.IntSort()))
		m := App(name, ex.vc.IntSort(), args[0].(*Term))
		if ex.vc.mode == ModeBV {
			ex.vc.Assume(reach, App("bvult", SBool, m, BVLit(new(big.Int).Lsh(big.NewInt(1), 32))))
		}
		return m
	}
	ifaceModels["io/fs.FileInfo.IsDir"] = func(ex *Exec, fr *frame, st *State, reach *Term, args []Value, instr ssa.Instruction) Value {
		fsNote(ex)
		if ex.vc.mode != ModeBV {
			panic(unsupported("FileInfo.IsDir needs ints=bv64"))
		}
		name := "fileinfo.mode"
		ex.vc.declare(name, fmt.Sprintf("(declare-fun %s (Int) %s)", name, ex.vc.IntSort()))
		m := App(name, ex.vc.IntSort(), args[0].(*Term))
		// fs.ModeDir = 1<<31
		return Not(Eq(App("bvand", SBV64, m, BVLit(new(big.Int).Lsh(big.NewInt(1), 31))), BVLit(big.NewInt(0))))
	}
	writeSort := ArraySort(SStr, SBool)
	models["os.WriteFile"] = func(ex *Exec, fr *frame, st *State, reach *Term, args []Value, instr ssa.Instruction) Value {
		fsNote(ex)
		w := ex.comp(st, "GH.fs.written", writeSort)
		ex.setComp(st, "GH.fs.written", Store(w, args[0].(*Term), TTrue))
		err := ex.vc.FreshConst("write.err", SInt)
		ex.assumeResultTyping(st, reach, err, types.Universe.Lookup("error").Type())
		return err
	}
	modelMods["os.WriteFile"] = func(ex *Exec, ms *modSet) { ms.add("GH.fs.written", writeSort) }
	models["os.Rename"] = func(ex *Exec, fr *frame, st *State, reach *Term, args []Value, instr ssa.Instruction) Value {
		fsNote(ex)
		err := ex.vc.FreshConst("rename.err", SInt)
		ex.assumeResultTyping(st, reach, err, types.Universe.Lookup("error").Type())
		okc := Eq(err, IntLit(0))
		n := ex.comp(st, "GH.fs.renames", ex.vc.IntSort())
		ex.setComp(st, "GH.fs.renames", Ite(okc, ex.vc.Arith("+", n, ex.vc.IntConst(1), intT()), n))
		f := ex.comp(st, "GH.fs.renameFrom", SStr)
		ex.setComp(st, "GH.fs.renameFrom", Ite(okc, args[0].(*Term), f))
		t := ex.comp(st, "GH.fs.renameTo", SStr)
		ex.setComp(st, "GH.fs.renameTo", Ite(okc, args[1].(*Term), t))
		return err
	}
	modelMods["os.Rename"] = func(ex *Exec, ms *modSet) {
		ms.add("GH.fs.renames", ex.vc.IntSort())
		ms.add("GH.fs.renameFrom", SStr)
		ms.add("GH.fs.renameTo", SStr)
	}
	models["os.MkdirAll"] = func(ex *Exec, fr *frame, st *State, reach *Term, args []Value, instr ssa.Instruction) Value {
		fsNote(ex)
		err := ex.vc.FreshConst("mkdir.err", SInt)
		ex.assumeResultTyping(st, reach, err, types.Universe.Lookup("error").Type())
		n := ex.comp(st, "GH.fs.mkdirs", ex.vc.IntSort())
		ex.setComp(st, "GH.fs.mkdirs", ex.vc.Arith("+", n, ex.vc.IntConst(1), intT()))
		return err
	}
	modelMods["os.MkdirAll"] = func(ex *Exec, ms *modSet) { ms.add("GH.fs.mkdirs", ex.vc.IntSort()) }
	// log.Panic*: a panic
	for _, n := range []string{"Panic", "Panicf"} {
		ifaceModels["github.com/containers/nri-plugins/pkg/log.Logger."+n] = func(ex *Exec, fr *frame, st *State, reach *Term, args []Value, instr ssa.Instruction) Value {
			if ex.safety && !ex.mayPanic {
				ex.safeOblige(fr, reach, TFalse, "log-panic", instr)
			}
			ex.vc.Assume(reach, TFalse)
			return nil
		}
	}
	genericModels["slices.SortFunc"] = func(ex *Exec, fr *frame, st *State, reach *Term, args []Value, instr ssa.Instruction, fn *ssa.Function) Value {
		st0 := args[0].(*Term)
		elem := types.Unalias(fn.Signature.Params().At(0).Type()).Underlying().(*types.Slice).Elem()
		sortPermutes(ex, st, reach, st0, elem)
		return nil
	}
	genericModelMods["slices.SortFunc"] = func(ex *Exec, ms *modSet, fn *ssa.Function) {
		elem := types.Unalias(fn.Signature.Params().At(0).Type()).Underlying().(*types.Slice).Elem()
		c, s := ex.sliceComp(elem)
		ms.add(c, s)
	}
	genericModels["maps.Clone"] = func(ex *Exec, fr *frame, st *State, reach *Term, args []Value, instr ssa.Instruction, fn *ssa.Function) Value {
		m := args[0].(*Term)
		mt := types.Unalias(fn.Signature.Params().At(0).Type()).Underlying().(*types.Map)
		d, v, l, ks, vs := ex.mapComps(mt)
		r := ex.freshRef(st, reach, "mapclone")
		dc := ex.comp(st, d, ArraySort(SInt, ArraySort(ks, SBool)))
		vcmp := ex.comp(st, v, ArraySort(SInt, ArraySort(ks, vs)))
		lc := ex.comp(st, l, ArraySort(SInt, ex.vc.IntSort()))
		ex.setComp(st, d, Store(dc, r, Select(dc, m)))
		ex.setComp(st, v, Store(vcmp, r, Select(vcmp, m)))
		ex.setComp(st, l, Store(lc, r, Select(lc, m)))
		ex.vc.note("maps.Clone modelled as: a fresh map with the same domain and values (nil for nil)")
		return ex.vc.Def("mapclone", Ite(Eq(m, IntLit(0)), IntLit(0), r))
	}
	genericModelMods["maps.Clone"] = func(ex *Exec, ms *modSet, fn *ssa.Function) {
		mt := types.Unalias(fn.Signature.Params().At(0).Type()).Underlying().(*types.Map)
		d, v, l, ks, vs := ex.mapComps(mt)
		ms.add("alive", aliveSort)
		ms.addFresh(d, ArraySort(SInt, ArraySort(ks, SBool)))
		ms.addFresh(v, ArraySort(SInt, ArraySort(ks, vs)))
		ms.addFresh(l, ArraySort(SInt, ex.vc.IntSort()))
	}
	genericModels["slices.Sort"] = genericModels["slices.SortFunc"]
	genericModelMods["slices.Sort"] = genericModelMods["slices.SortFunc"]
	models["sort.Strings"] = func(ex *Exec, fr *frame, st *State, reach *Term, args []Value, instr ssa.Instruction) Value {
		sortPermutes(ex, st, reach, args[0].(*Term), types.Typ[types.String])
		return nil
	}
	modelMods["sort.Strings"] = func(ex *Exec, ms *modSet) { c, s := ex.sliceComp(types.Typ[types.String]); ms.add(c, s) }
	models["sort.Ints"] = func(ex *Exec, fr *frame, st *State, reach *Term, args []Value, instr ssa.Instruction) Value {
		sortPermutes(ex, st, reach, args[0].(*Term), types.Typ[types.Int])
		return nil
	}
	modelMods["sort.Ints"] = func(ex *Exec, ms *modSet) { c, s := ex.sliceComp(types.Typ[types.Int]); ms.add(c, s) }
	// ---- k8s resource.Quantity: only the numeric value matters -------------------------------------------
	qty := func(scale int64) modelFn {
		return func(ex *Exec, fr *frame, st *State, reach *Term, args []Value, instr ssa.Instruction) Value {
			vc := ex.vc
			qt := ex.eng.parseType(ex.eng.typesPkg("k8s.io/apimachinery/pkg/api/resource"), "Quantity")
			if qt == nil {
				ex.unsupportedAt(instr, "resource.Quantity type not loaded")
			}
			r := ex.freshRef(st, reach, "quantity")
			// unknown representation; only its milli-value is specified
			qs := vc.SortOf(qt)
			val := vc.FreshConst("quantity.val", qs)
			ex.storeStructRef(st, r, qt, val)
			vc.declare("k8s.quantity.milli", fmt.Sprintf("(declare-fun k8s.quantity.milli (%s) Int)", qs))
			vc.Assume(reach, Eq(App("k8s.quantity.milli", SInt, val), vc.Arith("*", args[0].(*Term), IntLit(scale), intT())))
			vc.note("trusted model of resource.NewQuantity/NewMilliQuantity: the result's milli-value is the argument (x1000 for NewQuantity); representation unspecified")
			return r
		}
	}
	models["k8s.io/apimachinery/pkg/api/resource.NewMilliQuantity"] = qty(1)
	models["k8s.io/apimachinery/pkg/api/resource.NewQuantity"] = qty(1000)
	models["strings.HasPrefix"] = func(ex *Exec, fr *frame, st *State, reach *Term, args []Value, instr ssa.Instruction) Value {
		ex.vc.declare("str.prefixof", "(declare-fun str.prefixof (Str Str) Bool)")
		return App("str.prefixof", SBool, args[1].(*Term), args[0].(*Term))
	}
}

// ---- goresctrl idset.IDSet (map[ID]struct{}) -------------------------------------------------------------
// Trusted models of the four small methods the repository uses on id sets; they are the map operations of
// the library source (Has: all listed ids are keys and the set is non-nil; Add/Del: map update/delete per id;
// Size: len), for variadic argument lists of statically known length.
func init() {
	const is = "(github.com/intel/goresctrl/pkg/utils.IDSet)."
	mapT := func(ex *Exec, instr ssa.Instruction) *types.Map {
		if ip, ok := ex.eng.pkgs["github.com/intel/goresctrl/pkg/utils"]; ok {
			return types.Unalias(ip.Types.Scope().Lookup("IDSet").Type()).Underlying().(*types.Map)
		}
		panic(unsupported("idset model: package github.com/intel/goresctrl/pkg/utils not loaded"))
	}
	ids := func(ex *Exec, st *State, mt *types.Map, arg Value, instr ssa.Instruction) []*Term {
		if t, isT := arg.(*Term); isT && t.Sort == ex.vc.SortOf(mt.Key()) {
			// called from a specification with a single id (not packed into a slice)
			return []*Term{t}
		}
		elems, ok := ex.variadicElems(st, arg, mt.Key(), instr)
		if !ok {
			return nil // unknown length: the callers below over-approximate
		}
		return elems
	}
	known := func(ex *Exec, st *State, mt *types.Map, arg Value, instr ssa.Instruction) bool {
		if t, isT := arg.(*Term); isT && t.Sort == ex.vc.SortOf(mt.Key()) {
			return true
		}
		_, ok := ex.variadicElems(st, arg, mt.Key(), instr)
		return ok
	}
	// havocSet: the set's domain and length become arbitrary (argument list of unknown length)
	havocSet := func(ex *Exec, st *State, reach *Term, mt *types.Map, s *Term) {
		d, _, l, ks, _ := ex.mapComps(mt)
		dsort := ArraySort(SInt, ArraySort(ks, SBool))
		lsort := ArraySort(SInt, ex.vc.IntSort())
		dc := ex.comp(st, d, dsort)
		lc := ex.comp(st, l, lsort)
		nd := ex.vc.FreshConst("idset.dom", ArraySort(ks, SBool))
		nl := ex.vc.FreshConst("idset.len", ex.vc.IntSort())
		ex.vc.Assume(reach, ex.vc.Cmp("<=", ex.vc.IntConst(0), nl, types.Typ[types.Int]))
		isnil := Eq(s, IntLit(0))
		ex.setComp(st, d, Ite(isnil, dc, Store(dc, s, nd)))
		ex.setComp(st, l, Ite(isnil, lc, Store(lc, s, nl)))
	}
	note := func(ex *Exec) {
		ex.vc.note("trusted model of goresctrl idset.IDSet methods Has/Add/Del/Size (the map operations of the library source)")
	}
	models[is+"Has"] = func(ex *Exec, fr *frame, st *State, reach *Term, args []Value, instr ssa.Instruction) Value {
		note(ex)
		mt := mapT(ex, instr)
		s := args[0].(*Term)
		if !known(ex, st, mt, args[1], instr) {
			return ex.vc.FreshConst("idset.has", SBool)
		}
		cs := []*Term{Not(Eq(s, IntLit(0)))}
		for _, id := range ids(ex, st, mt, args[1], instr) {
			cs = append(cs, Select(ex.mapDom(st, mt, s), id))
		}
		return And(cs...)
	}
	models[is+"Add"] = func(ex *Exec, fr *frame, st *State, reach *Term, args []Value, instr ssa.Instruction) Value {
		note(ex)
		mt := mapT(ex, instr)
		s := args[0].(*Term)
		if !known(ex, st, mt, args[1], instr) {
			ex.vc.Assume(reach, Not(Eq(s, IntLit(0))))
			havocSet(ex, st, reach, mt, s)
			return nil
		}
		for _, id := range ids(ex, st, mt, args[1], instr) {
			if ex.safety {
				ex.safeOblige(fr, reach, Not(Eq(s, IntLit(0))), "nilmap", instr)
			}
			ex.vc.Assume(reach, Not(Eq(s, IntLit(0))))
			ex.mapStore(st, mt, s, id, ex.vc.Zero(mt.Elem()))
		}
		return nil
	}
	models[is+"Del"] = func(ex *Exec, fr *frame, st *State, reach *Term, args []Value, instr ssa.Instruction) Value {
		note(ex)
		mt := mapT(ex, instr)
		s := args[0].(*Term)
		if !known(ex, st, mt, args[1], instr) {
			havocSet(ex, st, reach, mt, s)
			return nil
		}
		for _, id := range ids(ex, st, mt, args[1], instr) {
			ex.mapDelete(st, mt, s, id)
		}
		return nil
	}
	models[is+"Size"] = func(ex *Exec, fr *frame, st *State, reach *Term, args []Value, instr ssa.Instruction) Value {
		note(ex)
		mt := mapT(ex, instr)
		s := args[0].(*Term)
		return Ite(Eq(s, IntLit(0)), ex.vc.IntConst(0), ex.mapLen(st, mt, s))
	}
	// NewIDSet(ids...): a fresh set holding exactly the given ids (known argument count), else a fresh set with an
	// arbitrary domain.
	models["github.com/intel/goresctrl/pkg/utils.NewIDSet"] = func(ex *Exec, fr *frame, st *State, reach *Term, args []Value, instr ssa.Instruction) Value {
		note(ex)
		mt := mapT(ex, instr)
		r := ex.freshRef(st, reach, "idset")
		d, v, l, ks, vs := ex.mapComps(mt)
		dsort := ArraySort(SInt, ArraySort(ks, SBool))
		ex.setComp(st, d, Store(ex.comp(st, d, dsort), r, App("(as const "+string(ArraySort(ks, SBool))+")", ArraySort(ks, SBool), TFalse)))
		lsort := ArraySort(SInt, ex.vc.IntSort())
		ex.setComp(st, l, Store(ex.comp(st, l, lsort), r, ex.vc.IntConst(0)))
		vsort := ArraySort(SInt, ArraySort(ks, vs))
		ex.setComp(st, v, Store(ex.comp(st, v, vsort), r, App("(as const "+string(ArraySort(ks, vs))+")", ArraySort(ks, vs), ex.vc.Zero(mt.Elem()))))
		if len(args) > 0 {
			if !known(ex, st, mt, args[0], instr) {
				havocSet(ex, st, reach, mt, r)
			} else {
				for _, id := range ids(ex, st, mt, args[0], instr) {
					ex.mapStore(st, mt, r, id, ex.vc.Zero(mt.Elem()))
				}
			}
		}
		return r
	}
	// Members(): a fresh slice listing every element of the set exactly once, in no particular order.
	models[is+"Members"] = func(ex *Exec, fr *frame, st *State, reach *Term, args []Value, instr ssa.Instruction) Value {
		note(ex)
		vc := ex.vc
		mt := mapT(ex, instr)
		s := args[0].(*Term)
		it := types.Typ[types.Int]
		r := ex.freshRef(st, reach, "members")
		cmp, cs := ex.sliceComp(mt.Key())
		arr := vc.FreshConst("members.arr", cs.ElemSort())
		ex.setComp(st, cmp, Store(ex.comp(st, cmp, cs), r, arr))
		n := vc.Def("members.len", Ite(Eq(s, IntLit(0)), vc.IntConst(0), ex.mapLen(st, mt, s)))
		vc.Assume(reach, vc.Cmp("<=", vc.IntConst(0), n, it))
		dom := ex.mapDom(st, mt, s)
		i, j, k := Sym("i!q", vc.IntSort()), Sym("j!q", vc.IntSort()), Sym("k!q", vc.SortOf(mt.Key()))
		inb := func(x *Term) *Term { return And(vc.Cmp("<=", vc.IntConst(0), x, it), vc.Cmp("<", x, n, it)) }
		// every listed id is an element
		vc.Assume(reach, Forall([]*Term{i}, Implies(inb(i), And(Not(Eq(s, IntLit(0))), Select(dom, Select(arr, i))))))
		// no duplicates
		vc.Assume(reach, Forall([]*Term{i, j}, Implies(And(inb(i), inb(j), Not(Eq(i, j))), Not(Eq(Select(arr, i), Select(arr, j))))))
		// every element is listed (index function)
		// (the position of an element in the list returned by Members is the specification function
		// indexin(list, element): an uninterpreted function of the list's backing array and the element)
		idx := "idset.members.pos"
		vc.declare(idx, fmt.Sprintf("(declare-fun %s (Int %s) %s)", idx, vc.SortOf(mt.Key()), vc.IntSort()))
		at := App(idx, vc.IntSort(), r, k)
		vc.Assume(reach, Forall([]*Term{k}, Implies(And(Not(Eq(s, IntLit(0))), Select(dom, k)), And(inb(at), Eq(Select(arr, at), k)))))
		return vc.MkSlice(r, vc.IntConst(0), n, n)
	}
	mm := func(ex *Exec, ms *modSet, fn *ssa.Function) {
		mt := types.Unalias(fn.Signature.Recv().Type()).Underlying().(*types.Map)
		d, vv, l, ks, vs := ex.mapComps(mt)
		ms.add(d, ArraySort(SInt, ArraySort(ks, SBool)))
		ms.add(vv, ArraySort(SInt, ArraySort(ks, vs)))
		ms.add(l, ArraySort(SInt, ex.vc.IntSort()))
	}
	modelModsFn[is+"Members"] = func(ex *Exec, ms *modSet, fn *ssa.Function) {
		mt := types.Unalias(fn.Signature.Recv().Type()).Underlying().(*types.Map)
		c, s := ex.sliceComp(mt.Key())
		ms.addFresh(c, s)
	}
	modelModsFn["github.com/intel/goresctrl/pkg/utils.NewIDSet"] = func(ex *Exec, ms *modSet, fn *ssa.Function) {
		mt := types.Unalias(fn.Signature.Results().At(0).Type()).Underlying().(*types.Map)
		d, vv, l, ks, vs := ex.mapComps(mt)
		ms.addFresh(d, ArraySort(SInt, ArraySort(ks, SBool)))
		ms.addFresh(vv, ArraySort(SInt, ArraySort(ks, vs)))
		ms.addFresh(l, ArraySort(SInt, ex.vc.IntSort()))
	}
	modelModsFn[is+"Add"] = mm
	modelModsFn[is+"Del"] = mm
}

// modelModsFn: like modelMods, for models whose written components depend on the callee's signature.
var modelModsFn = map[string]func(ex *Exec, ms *modSet, fn *ssa.Function){}
