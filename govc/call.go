package main

import (
	"fmt"
	"go/token"
	"go/types"
	"os"
	"strconv"
	"strings"

	"golang.org/x/tools/go/ssa"
)

const modulePath = "github.com/containers/nri-plugins"

func (ex *Exec) call(fr *frame, st *State, reach *Term, c *ssa.CallCommon, instr ssa.Instruction, exits *[]*exit) (Value, *Term) {
	if callee := c.StaticCallee(); callee != nil {
		switch callee.String() {
		case "sort.Slice", "sort.SliceStable":
			// the slice travels boxed in an `any`: recover it from the MakeInterface operand
			if mi, ok := c.Args[0].(*ssa.MakeInterface); ok {
				if slt, ok := types.Unalias(mi.X.Type()).Underlying().(*types.Slice); ok {
					sortPermutes(ex, st, reach, ex.term(fr, mi.X), slt.Elem())
					return nil, reach
				}
			}
		}
	}
	var args []Value
	for _, a := range c.Args {
		args = append(args, ex.operand(fr, a))
	}
	fnv := ex.operand(fr, c.Value)
	return ex.callWithValues(fr, st, reach, c, fnv, args, instr, exits)
}

func (ex *Exec) callWithValues(fr *frame, st *State, reach *Term, c *ssa.CallCommon, fnv Value, args []Value, instr ssa.Instruction, exits *[]*exit) (Value, *Term) {
	if c.IsInvoke() {
		return ex.invoke(fr, st, reach, c, fnv, args, instr, exits)
	}
	switch f := fnv.(type) {
	case *ssa.Builtin:
		return ex.builtin(fr, st, reach, f, c, args, instr, exits)
	case *FuncVal:
		return ex.callFunc(fr, st, reach, f.fn, nil, args, instr, exits, c)
	case *Closure:
		return ex.callFunc(fr, st, reach, f.fn, f.bindings, args, instr, exits, c)
	case *Term:
		if fv, ok := ex.funcVals[f.Op]; ok && f.IsLeaf() {
			return ex.callWithValues(fr, st, reach, c, fv, args, instr, exits)
		}
		// dynamic function value: contract of its named function type, if any
		if n, ok := types.Unalias(c.Value.Type()).(*types.Named); ok && n.Obj().Pkg() != nil {
			if fc, ok := ex.eng.cs.FuncTypes[n.Obj().Pkg().Path()+"."+n.Obj().Name()]; ok {
				nonnil := Not(Eq(f, IntLit(0)))
				ex.vc.note("assumed contract of function type " + n.Obj().Pkg().Path() + "." + n.Obj().Name() + " (calls through values of that type)")
				if ex.safety {
					ex.safeOblige(fr, reach, nonnil, "nil-func", instr)
				}
				ex.vc.Assume(reach, nonnil)
				if _, pure := fc.Opts["pure"]; pure {
					if rv := ex.applyPureFuncValue(n, f, args); rv != nil {
						return rv, reach
					}
				}
				return ex.applyIfaceContract(fr, st, reach, c, fc, f, args, instr)
			}
		}
		return ex.unknownCall(fr, st, reach, "dynamic function value "+c.Value.Name(), c.Signature().Results(), instr, false), reach
	}
	ex.unsupportedAt(instr, fmt.Sprintf("call through %T", fnv))
	return nil, reach
}

func resultValue(vals []Value) Value {
	switch len(vals) {
	case 0:
		return nil
	case 1:
		return vals[0]
	}
	return Tuple(vals)
}

// callFunc: model > contract > inline > effect classification.
func (ex *Exec) callFunc(fr *frame, st *State, reach *Term, fn *ssa.Function, free []Value, args []Value, instr ssa.Instruction, exits *[]*exit, c *ssa.CallCommon) (Value, *Term) {
	name := fn.String()
	if m, ok := models[name]; ok {
		return m(ex, fr, st, reach, args, instr), reach
	}
	if o := fn.Origin(); o != nil {
		if m, ok := genericModels[o.String()]; ok {
			return m(ex, fr, st, reach, args, instr, fn), reach
		}
	}
	if fn.Synthetic != "" && strings.HasPrefix(fn.Synthetic, "bound method wrapper") {
		// $bound: free[0] is the receiver; forward
		if len(free) == 1 {
			if mo, ok := fn.Object().(*types.Func); ok {
				if target := ex.eng.prog.FuncValue(mo); target != nil {
					return ex.callFunc(fr, st, reach, target, nil, append([]Value{free[0]}, args...), instr, exits, c)
				}
			}
		}
	}
	key := funcKey(fn)
	fc := ex.eng.cs.Funcs[key]
	// a callee under contract is replaced by its contract; this includes a (directly or indirectly) recursive
	// call of the function being verified (modular treatment of recursion, partial correctness)
	if fc != nil && fc.Opts["inline-only"] != "" && fc.Opts["summary"] != "" && ex.canInline(fn) {
		return ex.inlineSummary(fr, st, reach, fn, fc, free, args, instr, exits)
	}
	if fc != nil && fc.Opts["inline-only"] == "" {
		ex.callFree = free
		return ex.applyContract(fr, st, reach, fn, fc, args, instr)
	}
	if eff := ex.eng.effectOf(fn); eff != effUnknown && len(fn.Blocks) == 0 || eff == effPure || eff == effNoop {
		if d, declared := ex.eng.cs.Effects[funcKey(fn)]; declared {
			ex.vc.note("assumed effect declaration (" + d + ", not verified) of " + funcKey(fn))
		}
		return ex.pureCall(fr, st, reach, fn, args, instr), reach
	}
	if ex.canInline(fn) {
		return ex.inline(fr, st, reach, fn, free, args, instr, exits)
	}
	return ex.unknownCall(fr, st, reach, name, fn.Signature.Results(), instr, false), reach
}

func (ex *Exec) canInline(fn *ssa.Function) bool {
	if len(fn.Blocks) == 0 {
		return false
	}
	for _, s := range ex.stack {
		if s == fn {
			return false // recursion
		}
	}
	if len(ex.stack) >= ex.inlineMax {
		return false
	}
	p := fn
	for p.Parent() != nil {
		p = p.Parent()
	}
	inModule := p.Pkg != nil && strings.HasPrefix(p.Pkg.Pkg.Path(), modulePath)
	if !inModule {
		// generic instantiations and wrappers have no package; allow small helpers of known-safe packages
		if p.Pkg == nil && (fn.Synthetic != "" || fn.Origin() != nil) {
			// fallthrough to size check
		} else if p.Pkg != nil && ex.eng.inlineOK[p.Pkg.Pkg.Path()] {
		} else {
			return false
		}
	}
	n := 0
	for _, b := range fn.Blocks {
		n += len(b.Instrs)
		for _, in := range b.Instrs {
			switch in.(type) {
			case *ssa.Select:
				return false
			}
		}
	}
	limit := 400
	if fc := ex.eng.cs.Funcs[funcKey(fn)]; fc != nil && fc.Opts["inline-size"] != "" {
		// per-function override on an `inline-only` shell (loop contracts of a big helper verified inlined)
		if v, err := strconv.Atoi(fc.Opts["inline-size"]); err == nil {
			limit = v
		}
	}
	return n <= limit
}

func (ex *Exec) inline(fr *frame, st *State, reach *Term, fn *ssa.Function, free []Value, args []Value, instr ssa.Instruction, exits *[]*exit) (Value, *Term) {
	nf := &frame{fn: fn, env: map[ssa.Value]Value{}, free: free, depth: fr.depth + 1, old: st.clone(), args: args}
	if len(args) != len(fn.Params) {
		ex.unsupportedAt(instr, fmt.Sprintf("arity mismatch calling %s", fn))
	}
	for i, p := range fn.Params {
		nf.env[p] = args[i]
	}
	ex.stack = append(ex.stack, fn)
	sub := st.clone()
	xs := ex.runBody(nf, sub, reach)
	ex.stack = ex.stack[:len(ex.stack)-1]
	var rets []*exit
	for _, x := range xs {
		if x.isPanic {
			*exits = append(*exits, x)
		} else {
			rets = append(rets, x)
		}
	}
	if len(rets) == 0 {
		return ex.zeroResults(fn.Signature.Results()), TFalse
	}
	var nreach *Term
	if len(rets) == 1 {
		*st = *rets[0].st
		nreach = rets[0].reach
		return resultValue(rets[0].results), nreach
	}
	var rs []*Term
	for _, r := range rets {
		rs = append(rs, r.reach)
	}
	nreach = ex.vc.Def("reach.ret."+fn.Name(), Or(rs...))
	merged := ex.mergeStates(rets[0].st, func(i int) (*Term, *State) { return rets[i].reach, rets[i].st }, len(rets))
	*st = *merged
	nres := len(rets[0].results)
	vals := make([]Value, nres)
	for j := 0; j < nres; j++ {
		var acc Value
		for i := len(rets) - 1; i >= 0; i-- {
			if acc == nil {
				acc = rets[i].results[j]
			} else {
				acc = ex.iteValue(rets[i].reach, rets[i].results[j], acc, nil)
			}
		}
		if t, ok := acc.(*Term); ok {
			acc = ex.vc.Def(fn.Name()+".ret", t)
		}
		vals[j] = acc
	}
	return resultValue(vals), nreach
}

func (ex *Exec) zeroResults(res *types.Tuple) Value {
	var vals []Value
	for i := 0; i < res.Len(); i++ {
		vals = append(vals, ex.vc.Zero(res.At(i).Type()))
	}
	return resultValue(vals)
}

// pureCall: no heap effect; result is an uninterpreted function of first-order arguments.
func (ex *Exec) pureCall(fr *frame, st *State, reach *Term, fn *ssa.Function, args []Value, instr ssa.Instruction) Value {
	res := fn.Signature.Results()
	ex.vc.drop("call to " + fn.String() + ": no effect on tracked state; result uninterpreted")
	return ex.ufResults(st, reach, "uf."+sanitize(fn.String()), res, args, ex.eng.effectOf(fn) == effPure)
}

func (ex *Exec) ufResults(st *State, reach *Term, name string, res *types.Tuple, args []Value, functional bool) Value {
	var vals []Value
	for i := 0; i < res.Len(); i++ {
		rt := res.At(i).Type()
		var v *Term
		var targs []*Term
		allTerms := functional
		for _, a := range args {
			t, ok := a.(*Term)
			if !ok {
				allTerms = false
				break
			}
			targs = append(targs, t)
		}
		if allTerms && len(targs) > 0 {
			var sorts []string
			for _, t := range targs {
				sorts = append(sorts, string(t.Sort))
			}
			fname := fmt.Sprintf("%s.%d", name, i)
			ex.vc.declare(fname, fmt.Sprintf("(declare-fun %s (%s) %s)", fname, strings.Join(sorts, " "), ex.vc.SortOf(rt)))
			v = ex.vc.Def(name, App(fname, ex.vc.SortOf(rt), targs...))
			ex.assumeResultTyping(st, reach, v, rt)
		} else {
			v = ex.vc.FreshConst(name, ex.vc.SortOf(rt))
			ex.assumeResultTyping(st, reach, v, rt)
		}
		vals = append(vals, v)
	}
	return resultValue(vals)
}

// results of unknown code: references may be fresh or existing – they are only known to be nil or valid.
func (ex *Exec) assumeResultTyping(st *State, reach *Term, v *Term, t types.Type) {
	switch types.Unalias(t).Underlying().(type) {
	case *types.Pointer, *types.Map, *types.Interface, *types.Signature, *types.Chan:
		// make it alive (if it was fresh it now is allocated)
		al := ex.alive(st)
		ex.vc.Assume(reach, App(">=", SBool, v, IntLit(0)))
		ex.setComp(st, "alive", Ite(Eq(v, IntLit(0)), al, Store(al, v, TTrue)))
		return
	case *types.Slice:
		p := ex.vc.SlicePtr(v)
		al := ex.alive(st)
		ex.vc.Assume(reach, App(">=", SBool, p, IntLit(0)))
		ex.vc.Assume(reach, ex.sliceWF(v))
		ex.setComp(st, "alive", Ite(Eq(p, IntLit(0)), al, Store(al, p, TTrue)))
		return
	}
	ex.assumeAlive(st, reach, v, t)
}

// unknownCall: havoc everything.
func (ex *Exec) unknownCall(fr *frame, st *State, reach *Term, what string, res *types.Tuple, instr ssa.Instruction, quiet bool) Value {
	pos := ""
	if instr != nil {
		pos = ex.eng.fset.Position(instr.Pos()).String()
	}
	ex.warn = append(ex.warn, fmt.Sprintf("havoc-all at call to %s (%s)", what, pos))
	ex.vc.drop("call to " + what + ": unknown effect, the whole heap is havocked")
	oldAlive := ex.alive(st)
	ex.newEpoch(st)
	// allocation is monotone
	r := Sym("r!q", SInt)
	ex.vc.Assume(reach, Forall([]*Term{r}, Implies(Select(oldAlive, r), Select(ex.alive(st), r))))
	var vals []Value
	for i := 0; i < res.Len(); i++ {
		v := ex.vc.FreshConst("unk", ex.vc.SortOf(res.At(i).Type()))
		ex.assumeResultTyping(st, reach, v, res.At(i).Type())
		vals = append(vals, v)
	}
	return resultValue(vals)
}

// ---- interface method calls ---------------------------------------------------------------------

func (ex *Exec) invoke(fr *frame, st *State, reach *Term, c *ssa.CallCommon, recv Value, args []Value, instr ssa.Instruction, exits *[]*exit) (Value, *Term) {
	rt, ok := recv.(*Term)
	if !ok {
		ex.unsupportedAt(instr, fmt.Sprintf("invoke on %T", recv))
	}
	nonnil := Not(Eq(rt, IntLit(0)))
	it := types.Unalias(c.Value.Type())
	if ex.safety && ex.eng.ifaceEffect(it, c.Method.Name()) != effNoop {
		// (package-level loggers are initialised at package init; calls on them are not checked)
		ex.safeOblige(fr, reach, nonnil, "nil-invoke", instr)
	}
	ex.vc.Assume(reach, nonnil)
	key := ifaceKey(it, c.Method.Name())
	if fc := ex.ifaceContract(key); fc != nil {
		return ex.applyIfaceContract(fr, st, reach, c, fc, rt, args, instr)
	}
	full := key
	if m, ok := ifaceModels[full]; ok {
		return m(ex, fr, st, reach, append([]Value{rt}, args...), instr), reach
	}
	eff := ex.eng.ifaceEffect(it, c.Method.Name())
	if eff == effNoop || eff == effPure {
		ex.vc.drop("interface call " + key + ": no effect on tracked state; result uninterpreted")
		return ex.ufResults(st, reach, "ufi."+sanitize(key), c.Signature().Results(), append([]Value{rt}, args...), false), reach
	}
	// single implementation in the loaded program? then dispatch statically
	if impl := ex.eng.uniqueImpl(it, c.Method); impl != nil {
		return ex.callFunc(fr, st, reach, impl, nil, append([]Value{rt}, args...), instr, exits, c)
	}
	return ex.unknownCall(fr, st, reach, "interface method "+key, c.Signature().Results(), instr, false), reach
}

func ifaceKey(t types.Type, method string) string {
	if n, ok := t.(*types.Named); ok && n.Obj().Pkg() != nil {
		return n.Obj().Pkg().Path() + "." + n.Obj().Name() + "." + method
	}
	if n, ok := t.(*types.Named); ok {
		return n.Obj().Name() + "." + method // error
	}
	return t.String() + "." + method
}

// ---- builtins --------------------------------------------------------------------------------------

func (ex *Exec) builtin(fr *frame, st *State, reach *Term, b *ssa.Builtin, c *ssa.CallCommon, args []Value, instr ssa.Instruction, exits *[]*exit) (Value, *Term) {
	vc := ex.vc
	switch b.Name() {
	case "len", "cap":
		x := args[0].(*Term)
		switch t := types.Unalias(c.Args[0].Type()).Underlying().(type) {
		case *types.Slice:
			if b.Name() == "cap" {
				return vc.SliceCap(x), reach
			}
			return vc.SliceLen(x), reach
		case *types.Map:
			l := vc.Def("len", Ite(Eq(x, IntLit(0)), vc.IntConst(0), ex.mapLen(st, t, x)))
			// len relates to the domain: len==0 <=> empty; len >= 0
			kq := Sym("k!q", vc.SortOf(t.Key()))
			dom := ex.mapDom(st, t, x)
			vc.Assume(reach, vc.Cmp(">=", l, vc.IntConst(0), types.Typ[types.Int]))
			vc.Assume(reach, Implies(Not(Eq(x, IntLit(0))), Eq(Eq(l, vc.IntConst(0)), Forall([]*Term{kq}, Not(Select(dom, kq))))))
			return l, reach
		case *types.Basic:
			return ex.strLen(x), reach
		case *types.Array:
			return vc.IntConst(t.Len()), reach
		case *types.Pointer:
			if a, ok := t.Elem().Underlying().(*types.Array); ok {
				return vc.IntConst(a.Len()), reach
			}
		}
	case "append":
		st0 := args[0].(*Term)
		slt := types.Unalias(c.Args[0].Type()).Underlying().(*types.Slice)
		if len(args) == 1 {
			return st0, reach
		}
		more := args[1].(*Term)
		// append(s, more...) where more is a slice: known small literal length?
		if more.Sort == SStr {
			ex.unsupportedAt(instr, "append of string to []byte")
		}
		n, ok := vc.SliceLen(more).IntVal()
		if ok && n.IsInt64() && n.Int64() <= 8 {
			var xs []*Term
			marr := ex.sliceElems(st, slt.Elem(), more)
			for i := int64(0); i < n.Int64(); i++ {
				xs = append(xs, vc.SliceAt(marr, vc.SliceOff(more), vc.IntConst(i)))
			}
			return ex.appendVals(st, reach, slt.Elem(), st0, xs), reach
		}
		// general case: fresh backing array with quantified contents
		it := types.Typ[types.Int]
		cmp, cs := ex.sliceComp(slt.Elem())
		r := ex.freshRef(st, reach, "append")
		narr := vc.FreshConst("apparr", cs.ElemSort())
		iq := Sym("i!q", vc.IntSort())
		a0 := ex.sliceElems(st, slt.Elem(), st0)
		a1 := ex.sliceElems(st, slt.Elem(), more)
		n0, n1 := vc.SliceLen(st0), vc.SliceLen(more)
		vc.Assume(reach, Forall([]*Term{iq}, Implies(And(vc.Cmp("<=", vc.IntConst(0), iq, it), vc.Cmp("<", iq, n0, it)),
			Eq(Select(narr, iq), vc.SliceAt(a0, vc.SliceOff(st0), iq)))))
		// appended part, per position i of the appended slice (the two-directional form - also per position k
		// of the new array - sets up a matching loop between the two facts and is deliberately not stated)
		vc.Assume(reach, Forall([]*Term{iq}, Implies(And(vc.Cmp("<=", vc.IntConst(0), iq, it), vc.Cmp("<", iq, n1, it)),
			Eq(Select(narr, vc.Arith("+", n0, iq, it)), vc.SliceAt(a1, vc.SliceOff(more), iq)))))
		ex.setComp(st, cmp, Store(ex.comp(st, cmp, cs), r, narr))
		nl := vc.Arith("+", n0, n1, it)
		return vc.MkSlice(r, vc.IntConst(0), nl, nl), reach
	case "delete":
		mt := types.Unalias(c.Args[0].Type()).Underlying().(*types.Map)
		ex.mapDelete(st, mt, args[0].(*Term), args[1].(*Term))
		return nil, reach
	case "copy":
		ex.unsupportedAt(instr, "builtin copy")
	case "print", "println":
		return nil, reach
	case "close":
		// closing a nil channel or a closed channel panics
		ch := args[0].(*Term)
		ex.safeOblige(fr, reach, Not(Eq(ch, IntLit(0))), "nilchan", instr)
		cl := ex.comp(st, chanClosedComp, aliveSort)
		ex.safeOblige(fr, reach, Not(Select(cl, ch)), "close-closed", instr)
		ex.setComp(st, chanClosedComp, Store(cl, ch, TTrue))
		return nil, reach
	case "min", "max":
		acc := args[0].(*Term)
		for _, a := range args[1:] {
			at := a.(*Term)
			op := "<"
			if b.Name() == "max" {
				op = ">"
			}
			acc = Ite(vc.Cmp(op, at, acc, c.Args[0].Type()), at, acc)
		}
		return acc, reach
	case "recover":
		return IntLit(0), reach
	case "ssa:wrapnilchk":
		return args[0], reach
	}
	ex.unsupportedAt(instr, "builtin "+b.Name())
	return nil, reach
}

// ---- modification analysis for loops / uncontracted frames ------------------------------------------

type modSet struct {
	all      bool
	comps    map[string]Sort
	iters    map[string]bool
	nonfresh map[string]bool // components with a write to an object that may have existed before the scanned region
	scope    map[int]bool    // loop scan: block indices of the loop body (nil: whole function)
	scopeFn  *ssa.Function
	ctx      string
}

func newModSet() *modSet {
	return &modSet{comps: map[string]Sort{}, iters: map[string]bool{}, nonfresh: map[string]bool{}}
}

func (m *modSet) setAll(why string) {
	if !m.all && os.Getenv("GOVC_DEBUG") != "" {
		fmt.Fprintln(os.Stderr, "scan: everything may be modified:", why, m.ctx)
	}
	m.all = true
}

func (m *modSet) add(name string, s Sort) { m.comps[name] = s; m.nonfresh[name] = true }

// addFresh: the component is written only at objects allocated inside the scanned region.
func (m *modSet) addFresh(name string, s Sort) { m.comps[name] = s }

func (m *modSet) allocInScope(in ssa.Instruction) bool {
	if m.scope == nil || in.Parent() != m.scopeFn {
		return true
	}
	return m.scope[in.Block().Index]
}

// freshRoot: does the address chain start at an object allocated inside the scanned region?
func (m *modSet) freshRoot(v ssa.Value) bool {
	for {
		switch x := v.(type) {
		case *ssa.FieldAddr:
			v = x.X
		case *ssa.IndexAddr:
			v = x.X
		case *ssa.Slice:
			v = x.X
		case *ssa.Alloc:
			return m.allocInScope(x)
		case *ssa.MakeSlice:
			return m.allocInScope(x)
		case *ssa.MakeMap:
			return m.allocInScope(x)
		case *ssa.FreeVar:
			// a captured variable: resolve through the MakeClosure of the enclosing function
			fn := x.Parent()
			par := fn.Parent()
			if par == nil {
				return false
			}
			idx := -1
			for i, fv := range fn.FreeVars {
				if fv == x {
					idx = i
				}
			}
			var bound ssa.Value
			for _, b := range par.Blocks {
				for _, in := range b.Instrs {
					if mc, ok := in.(*ssa.MakeClosure); ok && mc.Fn == fn && idx >= 0 && idx < len(mc.Bindings) {
						if bound != nil && bound != mc.Bindings[idx] {
							return false
						}
						bound = mc.Bindings[idx]
					}
				}
			}
			if bound == nil {
				return false
			}
			v = bound
		default:
			return false
		}
	}
}

func (ex *Exec) loopMods(fr *frame, fn *ssa.Function, body map[int]bool, st *State) *modSet {
	ex.scanState = st
	defer func() { ex.scanState = nil }()
	ms := newModSet()
	ms.scope = body
	ms.scopeFn = fn
	for _, b := range fn.Blocks {
		if !body[b.Index] {
			continue
		}
		for _, in := range b.Instrs {
			ex.scanInstr(fr, in, ms, 0, map[*ssa.Function]bool{fn: true})
		}
	}
	return ms
}

func (ex *Exec) scanFunc(fn *ssa.Function, argVals []Value, free []Value, ms *modSet, depth int, visiting map[*ssa.Function]bool) {
	if ms.all {
		return
	}
	if visiting[fn] {
		return
	}
	visiting[fn] = true
	defer delete(visiting, fn)
	pf := &frame{fn: fn, env: map[ssa.Value]Value{}, free: free}
	for i, p := range fn.Params {
		if i < len(argVals) && argVals[i] != nil {
			pf.env[p] = argVals[i]
		}
	}
	for _, b := range fn.Blocks {
		for _, in := range b.Instrs {
			ex.scanInstr(pf, in, ms, depth, visiting)
			if ms.all {
				return
			}
		}
	}
}

func (ex *Exec) addrComp(fr *frame, v ssa.Value) (string, Sort, bool) {
	// resolve the component a pointer value designates
	if fr != nil {
		if val, ok := fr.env[v]; ok {
			if a, ok := val.(*Addr); ok {
				return a.comp, a.compSort, true
			}
		}
	}
	switch x := v.(type) {
	case *ssa.FieldAddr:
		// nested?
		if c, s, ok := ex.addrIsInterior(fr, x.X); ok {
			return c, s, true
		}
		c, s, _ := ex.fieldComp(derefType(x.X.Type()), x.Field)
		return c, s, true
	case *ssa.IndexAddr:
		switch xt := types.Unalias(x.X.Type()).Underlying().(type) {
		case *types.Slice:
			c, s := ex.sliceComp(xt.Elem())
			return c, s, true
		case *types.Pointer:
			c, s := ex.sliceComp(xt.Elem().Underlying().(*types.Array).Elem())
			return c, s, true
		}
	case *ssa.Global:
		t := derefType(x.Type())
		return globalComp(x), ex.vc.SortOf(t), true
	case *ssa.Alloc:
		t := derefType(x.Type())
		if !isStructType(t) {
			if arr, ok := types.Unalias(t).Underlying().(*types.Array); ok {
				c, s := ex.sliceComp(arr.Elem())
				return c, s, true
			}
			c, s := ex.cellComp(t)
			return c, s, true
		}
	case *ssa.FreeVar:
		if fr != nil {
			for i, fv := range fr.fn.FreeVars {
				if fv == x && i < len(fr.free) {
					if a, ok := fr.free[i].(*Addr); ok {
						return a.comp, a.compSort, true
					}
					if _, ok := fr.free[i].(*Term); ok {
						t := derefType(x.Type())
						if !isStructType(t) {
							c, s := ex.cellComp(t)
							return c, s, true
						}
					}
				}
			}
		}
	}
	return "", "", false
}

func (ex *Exec) addrIsInterior(fr *frame, v ssa.Value) (string, Sort, bool) {
	// v is the base of a FieldAddr; if it is itself an interior address (nested value struct), return its root comp
	if fr != nil {
		if val, ok := fr.env[v]; ok {
			if a, ok := val.(*Addr); ok {
				return a.comp, a.compSort, true
			}
			return "", "", false
		}
	}
	switch x := v.(type) {
	case *ssa.FieldAddr:
		return ex.addrComp(fr, x)
	case *ssa.IndexAddr:
		return ex.addrComp(fr, x)
	}
	return "", "", false
}

func (ex *Exec) scanInstr(fr *frame, in ssa.Instruction, ms *modSet, depth int, visiting map[*ssa.Function]bool) {
	if ms.all {
		return
	}
	addAlive := func() { ms.add("alive", aliveSort) }
	fresh := false
	add := func(c string, s Sort) {
		if fresh {
			ms.addFresh(c, s)
		} else {
			ms.add(c, s)
		}
	}
	addStruct := func(t types.Type) {
		s := t.Underlying().(*types.Struct)
		for i := 0; i < s.NumFields(); i++ {
			c, cs, _ := ex.fieldComp(t, i)
			add(c, cs)
		}
	}
	addMap := func(mt *types.Map) {
		d, v, l, ks, vs := ex.mapComps(mt)
		add(d, ArraySort(SInt, ArraySort(ks, SBool)))
		add(v, ArraySort(SInt, ArraySort(ks, vs)))
		add(l, ArraySort(SInt, ex.vc.IntSort()))
	}
	switch x := in.(type) {
	case *ssa.Store:
		fresh = ms.freshRoot(x.Addr)
		if c, s, ok := ex.addrComp(fr, x.Addr); ok {
			add(c, s)
			return
		}
		t := derefType(x.Addr.Type())
		if isStructType(t) {
			addStruct(t)
			return
		}
		// pointer to a non-struct location of unknown provenance (could be an interior pointer)
		if fr != nil {
			if val, ok := fr.env[x.Addr]; ok {
				if _, isRef := val.(*Term); isRef {
					c, s := ex.cellComp(t)
					add(c, s)
					return
				}
			}
		}
		if _, isParam := x.Addr.(*ssa.Parameter); isParam {
			ms.setAll(fmt.Sprintf("site1 %v", ""))
			return
		}
		c, s := ex.cellComp(t)
		add(c, s)
	case *ssa.Alloc:
		addAlive()
		fresh = true
		t := derefType(x.Type())
		if isStructType(t) {
			addStruct(t)
		} else if arr, ok := types.Unalias(t).Underlying().(*types.Array); ok {
			c, s := ex.sliceComp(arr.Elem())
			add(c, s)
		} else {
			c, s := ex.cellComp(t)
			add(c, s)
		}
	case *ssa.MapUpdate:
		fresh = ms.freshRoot(x.Map)
		addMap(types.Unalias(x.Map.Type()).Underlying().(*types.Map))
	case *ssa.MakeChan:
		addAlive()
		ms.addFresh(chanClosedComp, aliveSort)
	case *ssa.MakeMap:
		addAlive()
		fresh = true
		addMap(types.Unalias(x.Type()).Underlying().(*types.Map))
	case *ssa.MakeSlice:
		addAlive()
		fresh = true
		c, s := ex.sliceComp(types.Unalias(x.Type()).Underlying().(*types.Slice).Elem())
		add(c, s)
	case *ssa.MakeInterface:
		if !isPointerLike(x.X.Type()) {
			addAlive()
		}
	case *ssa.MakeClosure:
	case *ssa.Range:
		// the iterator's ghost seen-set: named at execution time; mark by instruction
		if name, ok := ex.ghostSeen[x]; ok {
			ms.add(name, ex.compSorts[name])
		}
	case *ssa.Next:
		if r, ok := x.Iter.(*ssa.Range); ok {
			if name, ok := ex.ghostSeen[r]; ok {
				ms.add(name, ex.compSorts[name])
			}
		}
	case *ssa.Select:
		ms.setAll(fmt.Sprintf("site2 %v", ""))
	case *ssa.Send:
	case *ssa.Go:
		ex.scanCall(fr, &x.Call, ms, depth, visiting)
	case *ssa.Defer:
		ex.scanCall(fr, &x.Call, ms, depth, visiting)
	case *ssa.Call:
		ex.scanCall(fr, &x.Call, ms, depth, visiting)
	}
}

// scanValue resolves a value statically for the modification scan (nil when unknown).
func (ex *Exec) scanValue(fr *frame, v ssa.Value) Value {
	if fr != nil {
		if ev, ok := fr.env[v]; ok {
			if t, isT := ev.(*Term); isT && t.IsLeaf() {
				if fv, ok := ex.funcVals[t.Op]; ok {
					return fv
				}
			}
			return ev
		}
	}
	switch x := v.(type) {
	case *ssa.FreeVar:
		if fr != nil {
			for i, f := range fr.fn.FreeVars {
				if f == x && i < len(fr.free) {
					return fr.free[i]
				}
			}
		}
	case *ssa.MakeClosure:
		cl := &Closure{fn: x.Fn.(*ssa.Function)}
		for _, b := range x.Bindings {
			cl.bindings = append(cl.bindings, ex.scanValue(fr, b))
		}
		return cl
	case *ssa.Function:
		return &FuncVal{fn: x}
	case *ssa.Alloc:
		// a captured cell: its content if there is exactly one store into it
		var stored ssa.Value
		n := 0
		if refs := x.Referrers(); refs != nil {
			for _, r := range *refs {
				if s, ok := r.(*ssa.Store); ok && s.Addr == x {
					stored = s.Val
					n++
				}
			}
		}
		if n == 1 {
			return &scanCell{content: ex.scanValue(fr, stored)}
		}
		return &scanCell{}
	case *ssa.UnOp:
		if x.Op == token.MUL {
			if g, isG := x.X.(*ssa.Global); isG {
				if f := ex.eng.constFuncGlobal(g); f != nil {
					return &FuncVal{fn: f}
				}
			}
			if fa, isFA := x.X.(*ssa.FieldAddr); isFA && ex.scanState != nil {
				// a func-valued struct field read through a known reference (s.pick, s.sortPrefer …)
				if _, isFn := types.Unalias(x.Type()).Underlying().(*types.Signature); isFn {
					if base, ok := ex.scanValue(fr, fa.X).(*Term); ok {
						c, cs, ft := ex.fieldComp(derefType(fa.X.Type()), fa.Field)
						v := ex.loadAddr(ex.scanState, &Addr{comp: c, compSort: cs, idx: []*Term{base}, typ: ft})
						if v.IsLeaf() {
							if fv, ok := ex.funcVals[v.Op]; ok {
								return fv
							}
						}
					}
				}
				return nil
			}
			switch c := ex.scanValue(fr, x.X).(type) {
			case *scanCell:
				return c.content
			case *Term:
				// a real cell reference: read it in the state the scan is run for
				if al, isAl := x.X.(*ssa.Alloc); isAl && ex.scanState != nil && entryOnlyStore(al) {
					// the cell of a captured variable that is written exactly once, in the entry block
					// (`*t0 = s`): its content at any later point is the content in the scan state
					if _, isFn := types.Unalias(x.Type()).Underlying().(*types.Signature); !isFn {
						if s := ex.vc.SortOf(x.Type()); s == SInt {
							return ex.loadAddr(ex.scanState, ex.cellAddr(c, x.Type()))
						}
					}
				}
				if ex.scanState != nil {
					if _, isFn := types.Unalias(x.Type()).Underlying().(*types.Signature); isFn {
						v := ex.loadAddr(ex.scanState, ex.cellAddr(c, x.Type()))
						if v.IsLeaf() {
							if fv, ok := ex.funcVals[v.Op]; ok {
								return fv
							}
						}
					}
				}
			}
		}
	}
	return nil
}

// scanCell: statically resolved content of a captured variable (modification scan only).
type scanCell struct{ content Value }

func (ex *Exec) scanCall(fr *frame, c *ssa.CallCommon, ms *modSet, depth int, visiting map[*ssa.Function]bool) {
	ms.ctx = c.String()
	if fr != nil {
		ms.ctx += " in " + fr.fn.String()
	}
	if c.IsInvoke() {
		it := types.Unalias(c.Value.Type())
		key := ifaceKey(it, c.Method.Name())
		if fc := ex.ifaceContract(key); fc != nil {
			ex.contractMods(fc, nil, ms)
			return
		}
		if m, ok := ifaceModelMods[key]; ok {
			m(ex, ms)
			return
		}
		if _, ok := ifaceModels[key]; ok {
			return
		}
		eff := ex.eng.ifaceEffect(it, c.Method.Name())
		if eff == effNoop || eff == effPure {
			ms.add("alive", aliveSort)
			return
		}
		if impl := ex.eng.uniqueImpl(it, c.Method); impl != nil {
			ex.scanCallee(fr, impl, nil, c, ms, depth, visiting, true)
			return
		}
		ms.setAll(fmt.Sprintf("site3 %v", ""))
		return
	}
	var fn *ssa.Function
	var free []Value
	switch v := c.Value.(type) {
	case *ssa.Builtin:
		switch v.Name() {
		case "append":
			ms.add("alive", aliveSort)
			c2, s := ex.sliceComp(types.Unalias(c.Args[0].Type()).Underlying().(*types.Slice).Elem())
			ms.addFresh(c2, s)
		case "close":
			ms.add(chanClosedComp, aliveSort)
		case "delete":
			mt := types.Unalias(c.Args[0].Type()).Underlying().(*types.Map)
			d, vv, l, ks, vs := ex.mapComps(mt)
			ms.add(d, ArraySort(SInt, ArraySort(ks, SBool)))
			ms.add(vv, ArraySort(SInt, ArraySort(ks, vs)))
			ms.add(l, ArraySort(SInt, ex.vc.IntSort()))
		case "copy":
			ms.setAll(fmt.Sprintf("site4 %v", ""))
		}
		return
	case *ssa.Function:
		fn = v
		if name := v.String(); name == "sort.Slice" || name == "sort.SliceStable" {
			if mi, ok := c.Args[0].(*ssa.MakeInterface); ok {
				if slt, ok := types.Unalias(mi.X.Type()).Underlying().(*types.Slice); ok {
					c2, s2 := ex.sliceComp(slt.Elem())
					ms.add(c2, s2)
					return
				}
			}
		}
	default:
		switch cv := ex.scanValue(fr, c.Value).(type) {
		case *Closure:
			fn, free = cv.fn, cv.bindings
		case *FuncVal:
			fn = cv.fn
		}
	}
	if fn == nil {
		// a dynamic function value whose named function type carries a contract
		if n, ok := types.Unalias(c.Value.Type()).(*types.Named); ok && n.Obj().Pkg() != nil {
			if fc, ok := ex.eng.cs.FuncTypes[n.Obj().Pkg().Path()+"."+n.Obj().Name()]; ok {
				if sig, ok := n.Underlying().(*types.Signature); ok {
					fc.sig = sig
					fc.recvT = c.Value.Type()
				}
				ex.contractMods(fc, nil, ms)
				return
			}
		}
		ms.setAll(fmt.Sprintf("site5 %v", ""))
		return
	}
	ex.scanCallee(fr, fn, free, c, ms, depth, visiting, false)
}

func (ex *Exec) scanCallee(fr *frame, fn *ssa.Function, free []Value, c *ssa.CallCommon, ms *modSet, depth int, visiting map[*ssa.Function]bool, viaIface bool) {
	name := fn.String()
	if _, ok := models[name]; ok {
		if mm, ok := modelMods[name]; ok {
			mm(ex, ms)
		}
		if mm, ok := modelModsFn[name]; ok {
			mm(ex, ms, fn)
		}
		ms.add("alive", aliveSort)
		return
	}
	if o := fn.Origin(); o != nil {
		if mm, ok := genericModelMods[o.String()]; ok {
			mm(ex, ms, fn)
			return
		}
	}
	if fn.Synthetic != "" && strings.HasPrefix(fn.Synthetic, "bound method wrapper") {
		if mo, ok := fn.Object().(*types.Func); ok {
			if target := ex.eng.prog.FuncValue(mo); target != nil {
				fn = target
				free = nil
			}
		}
	}
	if fc := ex.eng.cs.Funcs[funcKey(fn)]; fc != nil && fc.Opts["inline-only"] == "" {
		ex.contractMods(fc, fn, ms)
		return
	}
	eff := ex.eng.effectOf(fn)
	if eff == effPure || eff == effNoop {
		ms.add("alive", aliveSort)
		return
	}
	if len(fn.Blocks) == 0 || depth > 20 {
		ms.setAll(fmt.Sprintf("site6 %v", ""))
		return
	}
	if !ex.canInlineStatic(fn) {
		ms.setAll(fmt.Sprintf("site7 %v", ""))
		return
	}
	var argVals []Value
	if fr != nil {
		off := 0
		if viaIface {
			argVals = append(argVals, nil)
			off = 1
		}
		_ = off
		for _, a := range c.Args {
			argVals = append(argVals, ex.scanValue(fr, a))
		}
	}
	ex.scanFunc(fn, argVals, free, ms, depth+1, visiting)
}

func (ex *Exec) canInlineStatic(fn *ssa.Function) bool {
	saved := ex.stack
	ex.stack = nil
	ok := ex.canInline(fn)
	ex.stack = saved
	return ok
}

// contractMods: what a contract call may modify (component granularity).
func (ex *Exec) contractMods(fc *FuncContract, fn *ssa.Function, ms *modSet) {
	ms.add("alive", aliveSort)
	if fc.HasMod {
		for _, name := range ex.modifiesComps(fc, fn) {
			if name == "*" {
				ms.setAll(fmt.Sprintf("site8 %v", ""))
				return
			}
			ms.add(name, ex.compSorts[name])
		}
		return
	}
	if fn == nil || len(fn.Blocks) == 0 {
		if !fc.HasMod {
			// trusted contract without modifies: modifies nothing
			return
		}
	}
	// no modifies clause: infer from the body
	sub := ex.eng.inferredMods(ex, fn)
	if sub.all {
		ms.setAll(fmt.Sprintf("site9 %v", ""))
		return
	}
	for k, s := range sub.comps {
		if sub.nonfresh[k] {
			ms.add(k, s)
		} else {
			ms.addFresh(k, s)
		}
	}
}

// applyPureFuncValue: a call through a value of a function type declared `pure`: an uninterpreted
// function of the function value and the arguments, no effect on the heap.
func (ex *Exec) applyPureFuncValue(n *types.Named, f *Term, args []Value) Value {
	sig, ok := n.Underlying().(*types.Signature)
	if !ok || sig.Results().Len() != 1 {
		return nil
	}
	targs := []*Term{f}
	sorts := []string{"Int"}
	for _, a := range args {
		t, ok := a.(*Term)
		if !ok {
			return nil
		}
		targs = append(targs, t)
		sorts = append(sorts, string(t.Sort))
	}
	name := "apply." + typeKey(n)
	rs := ex.vc.SortOf(sig.Results().At(0).Type())
	ex.vc.declare(name, fmt.Sprintf("(declare-fun %s (%s) %s)", name, strings.Join(sorts, " "), rs))
	return App(name, rs, targs...)
}

// entryOnlyStore: the Alloc is stored to exactly once and that store sits in the function's entry block
// (the copy of a parameter or local into the cell of a captured variable).
func entryOnlyStore(al *ssa.Alloc) bool {
	refs := al.Referrers()
	if refs == nil {
		return false
	}
	n := 0
	for _, r := range *refs {
		if s, ok := r.(*ssa.Store); ok && s.Addr == al {
			n++
			if s.Block() == nil || s.Block().Index != 0 {
				return false
			}
		}
	}
	return n == 1
}

// ifaceContract: the contract of an interface method visible while verifying the current top-level function:
// the one declared in the contract files of that function's package, else one from the trusted specs directory.
func (ex *Exec) ifaceContract(key string) *FuncContract {
	if fc, ok := ex.eng.cs.Ifaces[ex.scopePkg()+"|"+key]; ok {
		return fc
	}
	if fc, ok := ex.eng.cs.Ifaces["*|"+key]; ok {
		return fc
	}
	// declared by exactly one other package: use that assumption (it is listed in the evidence); with several
	// competing declarations none is used (the call falls back to the unique implementation or to havoc)
	var only *FuncContract
	n := 0
	for k, fc := range ex.eng.cs.Ifaces {
		if strings.HasSuffix(k, "|"+key) {
			only = fc
			n++
		}
	}
	if n == 1 {
		return only
	}
	return nil
}

func (ex *Exec) scopePkg() string {
	if ex.scope != "" {
		return ex.scope
	}
	if ex.top != nil {
		p := ex.top
		for p.Parent() != nil {
			p = p.Parent()
		}
		if p.Pkg != nil {
			return p.Pkg.Pkg.Path()
		}
	}
	if ex.topC != nil {
		return ex.topC.Pkg
	}
	return ""
}

// inlineSummary: a helper that can only be verified inlined at its call site (its behaviour depends on closures
// the caller stores in its fields) but whose internals should not burden the rest of the caller's proof. The body
// is executed inline from the call's pre-state and all its obligations are generated there; its `ensures` and
// `modifies` are proved at the inline exit (obligations "summary:<callee>#n/..."); the caller then continues
// from the pre-state through that contract alone, and the assertions generated inside the inlined region are
// not premises of any later obligation.
func (ex *Exec) inlineSummary(fr *frame, st *State, reach *Term, fn *ssa.Function, fc *FuncContract, free []Value, args []Value, instr ssa.Instruction, exits *[]*exit) (Value, *Term) {
	vc := ex.vc
	pkg := ex.eng.typesPkg(fc.Pkg)
	pre := st.clone()
	cname := relName(fn)
	ex.callN["summary:"+cname]++
	n := ex.callN["summary:"+cname]
	se := &SpecEnv{ex: ex, pkg: pkg, names: map[string]specBinding{}, cur: pre, old: pre, reach: reach}
	for i, p := range fn.Params {
		se.names[p.Name()] = specBinding{args[i], p.Type()}
	}
	for _, l := range fc.Lets {
		v, t := se.eval(l.Expr)
		se.names[l.Name] = specBinding{v, t}
	}
	for i, r := range fc.Requires {
		g := se.evalBool(r.Expr)
		vc.Oblige(&Obligation{Name: fmt.Sprintf("%s/call-pre:%s#%d.%d", relName(ex.top), cname, n, i), Kind: "call-pre", Tags: ex.contractTags(), Guard: reach, Goal: g, Func: relName(ex.top), Pos: ex.posOf(instr), Note: r.Text})
		vc.Assume(reach, g)
	}
	mark := len(vc.lines)
	stIn := st.clone()
	rv, nreach := ex.inline(fr, stIn, reach, fn, free, args, instr, exits)
	var results []Value
	switch v := rv.(type) {
	case nil:
	case Tuple:
		results = []Value(v)
	default:
		results = []Value{v}
	}
	post := &SpecEnv{ex: ex, pkg: pkg, names: se.names, cur: stIn, old: pre, reach: nreach}
	bindResults(post, fn.Signature, results)
	oname := fmt.Sprintf("%s/summary:%s#%d", relName(ex.top), cname, n)
	for k, e := range fc.Ensures {
		g := post.evalBool(e.Expr)
		tags := e.Tags
		if len(tags) == 0 {
			tags = ex.contractTags()
		}
		vc.Oblige(&Obligation{Name: fmt.Sprintf("%s/post#%d", oname, k), Kind: "post", Tags: tags, Guard: nreach, Goal: g, Func: relName(ex.top), Pos: fmt.Sprintf("%s:%d", e.File, e.Line), Note: e.Text})
	}
	if fc.HasMod {
		ex.frameObligations(fr, fc, pre, stIn, nreach, oname+"/frame", se)
	}
	end := len(vc.lines)
	vc.excl = append(vc.excl, [2]int{mark, end})
	fc2 := *fc
	fc2.Requires = nil
	return ex.applyContract(fr, st, reach, fn, &fc2, args, instr)
}
