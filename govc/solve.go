package main

import (
	"bytes"
	"context"
	"fmt"
	"os"
	"os/exec"
	"path/filepath"
	"strings"
	"sync"
	"time"
)

type SolveResult struct {
	Status  string // unsat, sat, unknown, timeout, error
	Solver  string
	Seconds float64
	Output  string
	Values  map[string]string
	File    string
	All     map[string]string // per-solver status (thorough cross-check)
}

func (vc *VC) Script(o *Obligation, forCVC5 bool, modelVars []string) string {
	var sb strings.Builder
	sb.WriteString("; obligation " + o.Name + "\n")
	if o.Note != "" {
		sb.WriteString("; " + strings.ReplaceAll(o.Note, "\n", " ") + "\n")
	}
	sb.WriteString("(set-option :produce-models true)\n")
	sb.WriteString("(set-logic ALL)\n")
	axioms := vc.strAxioms()
	for _, d := range vc.decls {
		sb.WriteString(d + "\n")
	}
	for _, d := range axioms {
		if o.WantSat && strings.Contains(d, "(forall") {
			continue // satisfiability (vacuity) checks run without the quantified string axioms
		}
		sb.WriteString(d + "\n")
	}
	for _, l := range vc.lines[:o.Prefix] {
		sb.WriteString(l + "\n")
	}
	sb.WriteString("(assert " + o.Guard.String() + ")\n")
	sb.WriteString("(assert (not " + o.Goal.String() + "))\n")
	sb.WriteString("(check-sat)\n")
	if len(modelVars) > 0 {
		sb.WriteString("(get-value (" + strings.Join(modelVars, " ") + "))\n")
	}
	return sb.String()
}

type solverSpec struct {
	name string
	args func(file string, timeout int) []string
	sets bool
}

var solvers = []solverSpec{
	{"z3-new", func(f string, t int) []string { return []string{"z3-new", fmt.Sprintf("-T:%d", t), f} }, false},
	{"z3", func(f string, t int) []string { return []string{"z3", fmt.Sprintf("-T:%d", t), f} }, false},
	{"cvc5", func(f string, t int) []string {
		return []string{"cvc5", fmt.Sprintf("--tlimit=%d", t*1000), "--produce-models", f}
	}, true},
}

func parseStatus(out string) string {
	for _, ln := range strings.Split(out, "\n") {
		ln = strings.TrimSpace(ln)
		switch ln {
		case "sat", "unsat", "unknown", "timeout":
			return ln
		}
		if strings.HasPrefix(ln, "(error") {
			return "error"
		}
		if ln != "" && !strings.HasPrefix(ln, ";") && !strings.HasPrefix(ln, "WARNING") {
			// unexpected first line
			if strings.Contains(ln, "interrupted by timeout") || strings.Contains(ln, "timeout") {
				return "timeout"
			}
			return "error"
		}
	}
	return "timeout"
}

func parseValues(out string) map[string]string {
	// (get-value) output: ((name value) (name value) ...)
	i := strings.Index(out, "((")
	if i < 0 {
		return nil
	}
	s := out[i:]
	vals := map[string]string{}
	// crude s-expr split at depth 1
	depth := 0
	start := -1
	for j := 0; j < len(s); j++ {
		switch s[j] {
		case '(':
			depth++
			if depth == 2 {
				start = j
			}
		case ')':
			if depth == 2 && start >= 0 {
				pair := s[start+1 : j]
				k := strings.IndexAny(pair, " \n")
				if k > 0 {
					vals[pair[:k]] = strings.TrimSpace(pair[k:])
				}
				start = -1
			}
			depth--
			if depth == 0 {
				return vals
			}
		}
	}
	return vals
}

// Solve races the installed solvers on one obligation.
func Solve(vc *VC, o *Obligation, dir string, timeout int, modelVars []string, crossCheck bool) *SolveResult {
	fname := filepath.Join(dir, sanitize(vc.Name+"__"+o.Name)+".smt2")
	if len(fname) > 240 {
		fname = fname[:200] + fmt.Sprintf("_%x.smt2", hashStr(fname))
	}
	script := vc.Script(o, false, modelVars)
	if err := os.WriteFile(fname, []byte(script), 0644); err != nil {
		return &SolveResult{Status: "error", Output: err.Error()}
	}
	if o.WantSat && timeout > 6 {
		timeout = 6
	}
	usesSets := strings.Contains(script, "(Set Int)") || strings.Contains(script, "set.")
	ctx, cancel := context.WithCancel(context.Background())
	defer cancel()
	type ans struct {
		r *SolveResult
	}
	ch := make(chan ans, len(solvers))
	n := 0
	for _, s := range solvers {
		if usesSets && !s.sets {
			continue
		}
		n++
		go func(s solverSpec) {
			args := s.args(fname, timeout)
			t0 := time.Now()
			cmd := exec.CommandContext(ctx, args[0], args[1:]...)
			var buf bytes.Buffer
			cmd.Stdout = &buf
			cmd.Stderr = &buf
			_ = cmd.Run()
			out := buf.String()
			st := parseStatus(out)
			if ctx.Err() != nil && st != "sat" && st != "unsat" {
				st = "cancelled"
			}
			r := &SolveResult{Status: st, Solver: s.name, Seconds: time.Since(t0).Seconds(), Output: out, File: fname}
			if st == "sat" {
				r.Values = parseValues(out)
			}
			ch <- ans{r}
		}(s)
	}
	var best *SolveResult
	all := map[string]string{}
	for i := 0; i < n; i++ {
		a := <-ch
		all[a.r.Solver] = a.r.Status
		if a.r.Status == "sat" || a.r.Status == "unsat" {
			if best == nil || (best.Status != "sat" && best.Status != "unsat") {
				best = a.r
				if !crossCheck {
					cancel()
				}
			} else if crossCheck && best.Status != a.r.Status {
				best = &SolveResult{Status: "error", Solver: "cross-check", Output: fmt.Sprintf("solvers disagree: %v", all), File: fname}
			}
		} else if best == nil || (best.Status == "cancelled") || (best.Status == "error" && a.r.Status != "error" && a.r.Status != "cancelled") {
			if best == nil || best.Status != "sat" && best.Status != "unsat" {
				best = a.r
			}
		}
	}
	if best == nil {
		best = &SolveResult{Status: "error", Output: "no solver applicable", File: fname}
	}
	best.All = all
	return best
}

func hashStr(s string) uint32 {
	var h uint32 = 2166136261
	for i := 0; i < len(s); i++ {
		h ^= uint32(s[i])
		h *= 16777619
	}
	return h
}

type job struct {
	vc  *VC
	o   *Obligation
	res *SolveResult
}

func SolveAll(jobs []*job, dir string, timeout int, workers int, modelVars func(*job) []string, crossCheck bool) {
	var wg sync.WaitGroup
	ch := make(chan *job)
	for w := 0; w < workers; w++ {
		wg.Add(1)
		go func() {
			defer wg.Done()
			for j := range ch {
				j.res = Solve(j.vc, j.o, dir, timeout, modelVars(j), crossCheck)
			}
		}()
	}
	for _, j := range jobs {
		ch <- j
	}
	close(ch)
	wg.Wait()
}
