package main

import (
	"bytes"
	"context"
	"fmt"
	"os"
	"os/exec"
	"path/filepath"
	"regexp"
	"sort"
	"strings"
	"sync"
	"time"
)

// crossCheckGrace: how long the remaining solvers may run after the first definite answer (thorough tier)
const crossCheckGrace = 8 * time.Second

type SolveResult struct {
	Status  string // unsat, sat, unknown, timeout, error
	Solver  string
	Seconds float64
	Output  string
	Values  map[string]string
	File    string
	All     map[string]string // per-solver status (thorough cross-check)
}

// ScriptLight abstracts every quantified subformula by a propositional atom (equal formulas get the
// same atom; bound-variable names are canonical, so textual equality is alpha-equivalence here).
// Any proof of the abstraction is a proof of the query: the abstraction only forgets what the
// quantified formulas mean. It decides at once the many goals that follow by propositional and
// array/bit-vector reasoning from facts that are already stated.
func (vc *VC) ScriptLight(o *Obligation) (string, bool) {
	return lightOf(vc.Script(o, false, nil))
}

func lightOf(full string) (string, bool) {
	lines := strings.Split(full, "\n")
	atoms := map[string]string{}
	var order []string
	abstract := func(l string) string {
		var sb strings.Builder
		i := 0
		for i < len(l) {
			if strings.HasPrefix(l[i:], "(forall ") || strings.HasPrefix(l[i:], "(exists ") {
				depth := 0
				j := i
				for ; j < len(l); j++ {
					if l[j] == '(' {
						depth++
					} else if l[j] == ')' {
						depth--
						if depth == 0 {
							break
						}
					}
				}
				txt := l[i : j+1]
				a, ok := atoms[txt]
				if !ok {
					a = fmt.Sprintf("Q!abs%d", len(atoms))
					atoms[txt] = a
					order = append(order, a)
				}
				sb.WriteString(a)
				i = j + 1
				continue
			}
			sb.WriteByte(l[i])
			i++
		}
		return sb.String()
	}
	var body []string
	for _, l := range lines {
		if strings.HasPrefix(l, "(assert ") || strings.HasPrefix(l, "(define-fun ") {
			l = abstract(l)
		}
		body = append(body, l)
	}
	if len(atoms) == 0 {
		return full, false
	}
	// declare the atoms right after set-logic
	var out []string
	for _, l := range body {
		out = append(out, l)
		if strings.HasPrefix(l, "(set-logic") {
			for _, a := range order {
				out = append(out, "(declare-const "+a+" Bool)")
			}
		}
	}
	return strings.Join(out, "\n"), true
}

// ScriptWithout is the query without the assumptions of the given kinds (model axioms tagged ;@kind).
// Dropping premises is sound; it keeps the quantifier instantiation of the solvers focused.
func (vc *VC) ScriptWithout(o *Obligation, kinds ...string) (string, bool) {
	return withoutOf(vc.Script(o, false, nil), kinds...)
}

func withoutOf(full string, kinds ...string) (string, bool) {
	lines := strings.Split(full, "\n")
	var out []string
	dropped := false
	for _, l := range lines {
		skip := false
		for _, k := range kinds {
			if strings.HasSuffix(l, ";@"+k) {
				skip = true
			}
		}
		if skip {
			dropped = true
			continue
		}
		out = append(out, l)
	}
	return strings.Join(out, "\n"), dropped
}

func (vc *VC) Script(o *Obligation, forCVC5 bool, modelVars []string) string {
	var sb strings.Builder
	sb.WriteString("; obligation " + o.Name + "\n")
	if o.Note != "" {
		sb.WriteString("; " + strings.ReplaceAll(o.Note, "\n", " ") + "\n")
	}
	sb.WriteString("(set-option :produce-models true)\n")
	sb.WriteString("(set-logic ALL)\n")
	axioms := vc.strAxioms()
	for _, d := range vc.decls {
		sb.WriteString(d + "\n")
	}
	for _, d := range axioms {
		if o.WantSat && strings.Contains(d, "(forall") {
			continue // satisfiability (vacuity) checks run without the quantified string axioms
		}
		sb.WriteString(d + "\n")
	}
	for i, l := range vc.lines[:o.Prefix] {
		if len(o.Excl) > 0 && strings.HasPrefix(l, "(assert ") {
			skip := false
			for _, r := range o.Excl {
				if i >= r[0] && i < r[1] {
					skip = true
					break
				}
			}
			if skip {
				continue // internals of a summarised inlined call: replaced by its (proved) summary
			}
		}
		sb.WriteString(l + "\n")
	}
	sb.WriteString("(assert " + o.Guard.String() + ")\n")
	sb.WriteString("(assert (not " + o.Goal.String() + "))\n")
	sb.WriteString("(check-sat)\n")
	if len(modelVars) > 0 {
		sb.WriteString("(get-value (" + strings.Join(modelVars, " ") + "))\n")
	}
	return sb.String()
}

type solverSpec struct {
	name string
	args func(file string, timeout int) []string
	sets bool
}

var solvers = []solverSpec{
	{"z3-new", func(f string, t int) []string { return []string{"z3-new", fmt.Sprintf("-T:%d", t), f} }, false},
	{"z3", func(f string, t int) []string { return []string{"z3", fmt.Sprintf("-T:%d", t), f} }, false},
	{"cvc5", func(f string, t int) []string {
		return []string{"cvc5", fmt.Sprintf("--tlimit=%d", t*1000), "--produce-models", f}
	}, true},
}

func parseStatus(out string) string {
	for _, ln := range strings.Split(out, "\n") {
		ln = strings.TrimSpace(ln)
		switch ln {
		case "sat", "unsat", "unknown", "timeout":
			return ln
		}
		if strings.HasPrefix(ln, "(error") {
			return "error"
		}
		if ln != "" && !strings.HasPrefix(ln, ";") && !strings.HasPrefix(ln, "WARNING") {
			// unexpected first line
			if strings.Contains(ln, "interrupted by timeout") || strings.Contains(ln, "timeout") {
				return "timeout"
			}
			return "error"
		}
	}
	return "timeout"
}

func parseValues(out string) map[string]string {
	// (get-value) output: ((name value) (name value) ...)
	i := strings.Index(out, "((")
	if i < 0 {
		return nil
	}
	s := out[i:]
	vals := map[string]string{}
	// crude s-expr split at depth 1
	depth := 0
	start := -1
	for j := 0; j < len(s); j++ {
		switch s[j] {
		case '(':
			depth++
			if depth == 2 {
				start = j
			}
		case ')':
			if depth == 2 && start >= 0 {
				pair := s[start+1 : j]
				k := strings.IndexAny(pair, " \n")
				if k > 0 {
					vals[pair[:k]] = strings.TrimSpace(pair[k:])
				}
				start = -1
			}
			depth--
			if depth == 0 {
				return vals
			}
		}
	}
	return vals
}

// Solve races the installed solvers (and sound variants of the query) on one obligation.
//
// Variants: the full query with inferred triggers (z3 5.1, z3 4.8), with the solvers' own triggers
// (z3 5.1, z3 4.8, cvc5), and premise slices without the model axioms (heap typing, map model). For
// set-valued queries cvc5 gets the native set theory and the z3 back ends a characteristic-array
// encoding with axiomatised cardinality. Stage 0 abstracts quantified subformulas to atoms; the last
// stage is relevance-guided premise selection. Every variant only drops or weakens premises, so an
// unsat answer of any of them proves the obligation; sat answers are taken from full queries only.
func Solve(vc *VC, o *Obligation, dir string, timeout int, modelVars []string, crossCheck bool) *SolveResult {
	fname := filepath.Join(dir, sanitize(vc.Name+"__"+o.Name)+".smt2")
	if len(fname) > 240 {
		fname = fname[:200] + fmt.Sprintf("_%x.smt2", hashStr(fname))
	}
	script := vc.Script(o, false, modelVars)
	if err := os.WriteFile(fname, []byte(script), 0644); err != nil {
		return &SolveResult{Status: "error", Output: err.Error()}
	}
	if o.WantSat && timeout > 6 {
		timeout = 6
	}
	usesSets := strings.Contains(script, "(Set Int)") || strings.Contains(script, "set.")
	write := func(suffix, text string) string {
		f := strings.TrimSuffix(fname, ".smt2") + suffix
		if os.WriteFile(f, []byte(text), 0644) != nil {
			return ""
		}
		return f
	}
	zscript := script // what the z3 back ends see
	if usesSets {
		zscript = setsToArrays(script)
	}
	zfile := fname
	if zscript != script {
		zfile = write(".z3sets.smt2", zscript)
	}
	run := func(ctx context.Context, name string, args []string, file string) *SolveResult {
		t0 := time.Now()
		var cmd *exec.Cmd
		if ctx != nil {
			cmd = exec.CommandContext(ctx, args[0], args[1:]...)
		} else {
			cmd = exec.Command(args[0], args[1:]...)
		}
		var buf bytes.Buffer
		cmd.Stdout = &buf
		cmd.Stderr = &buf
		_ = cmd.Run()
		out := buf.String()
		st := parseStatus(out)
		if ctx != nil && ctx.Err() != nil && st != "sat" && st != "unsat" {
			st = "cancelled"
		}
		r := &SolveResult{Status: st, Solver: name, Seconds: time.Since(t0).Seconds(), Output: out, File: file}
		if st == "sat" {
			r.Values = parseValues(out)
		}
		return r
	}
	z3args := func(bin, f string, t int) []string { return []string{bin, fmt.Sprintf("-T:%d", t), f} }

	// stage 0: quantifiers as atoms
	if !o.WantSat {
		if light, changed := lightOf(zscript); changed {
			if lf := write(".light.smt2", light); lf != "" {
				if r := run(nil, "z3-new(quantifiers-as-atoms)", z3args("z3-new", lf, 4), lf); r.Status == "unsat" {
					r.All = map[string]string{r.Solver: "unsat"}
					return r
				}
			}
		}
	}

	type racer struct {
		name     string
		args     []string
		file     string
		onlyUnsat bool
	}
	var racers []racer
	nopat := stripPatterns(zscript)
	npfile := zfile
	if nopat != zscript {
		npfile = write(".nopat.smt2", nopat)
	}
	if zfile != "" {
		racers = append(racers, racer{"z3-new", z3args("z3-new", zfile, timeout), zfile, usesSets}, racer{"z3", z3args("z3", zfile, timeout), zfile, usesSets})
	}
	if npfile != "" && npfile != zfile {
		racers = append(racers, racer{"z3-new(auto-triggers)", z3args("z3-new", npfile, timeout), npfile, usesSets}, racer{"z3(auto-triggers)", z3args("z3", npfile, timeout), npfile, usesSets})
	}
	// cvc5: native sets, its own triggers
	cscript := stripPatterns(script)
	cfile := fname
	if cscript != script {
		cfile = write(".cvc5.smt2", cscript)
	}
	if cfile != "" {
		racers = append(racers, racer{"cvc5", []string{"cvc5", fmt.Sprintf("--tlimit=%d", timeout*1000), "--produce-models", cfile}, cfile, false})
	}
	if !o.WantSat {
		for vi, kinds := range [][]string{{"heaptyping", "mapwf"}, {"heaptyping"}, {"mapwf"}} {
			if sl, dropped := withoutOf(zscript, kinds...); dropped {
				if sf := write(fmt.Sprintf(".slice%d.smt2", vi), sl); sf != "" {
					racers = append(racers, racer{fmt.Sprintf("z3-new(slice%d)", vi), z3args("z3-new", sf, timeout), sf, true})
				}
			}
		}
	}
	ctx, cancel := context.WithCancel(context.Background())
	defer cancel()
	ch := make(chan *SolveResult, len(racers))
	for _, rc := range racers {
		go func(rc racer) {
			r := run(ctx, rc.name, rc.args, rc.file)
			if rc.onlyUnsat && r.Status != "unsat" {
				// weakened or re-encoded queries only count when they prove the goal
				if r.Status == "sat" {
					r.Status = "unknown"
				}
			}
			ch <- r
		}(rc)
	}
	var best *SolveResult
	all := map[string]string{}
	for range racers {
		r := <-ch
		all[r.Solver] = r.Status
		definite := r.Status == "sat" || r.Status == "unsat"
		switch {
		case definite && (best == nil || (best.Status != "sat" && best.Status != "unsat")):
			best = r
			if !crossCheck {
				cancel()
			} else {
				// thorough tier: give the other solvers a grace period to confirm or contradict the answer
				time.AfterFunc(crossCheckGrace, cancel)
			}
		case definite && crossCheck && best.Status != r.Status:
			best = &SolveResult{Status: "error", Solver: "cross-check", Output: fmt.Sprintf("solvers disagree: %v", all), File: fname}
		case !definite && best == nil:
			best = r
		case !definite && best != nil && (best.Status == "cancelled" || best.Status == "error") && r.Status != "cancelled":
			best = r
		}
	}
	if best == nil {
		best = &SolveResult{Status: "error", Output: "no solver applicable", File: fname}
	}
	best.All = all
	if !o.WantSat && best.Status != "unsat" && best.Status != "sat" {
		if r := rescue(zscript, fname, 60*time.Second); r != nil {
			r.All = all
			r.All["z3-new(relevance)"] = "unsat"
			return r
		}
	}
	return best
}

// stripPatterns removes (! body :pattern ...) annotations, leaving the solver's own trigger selection.
func stripPatterns(src string) string {
	if !strings.Contains(src, "(! ") {
		return src
	}
	var sb strings.Builder
	i := 0
	for i < len(src) {
		if strings.HasPrefix(src[i:], "(! ") {
			// body s-expression
			j := i + 3
			start := j
			if src[j] == '(' {
				depth := 0
				for ; j < len(src); j++ {
					if src[j] == '(' {
						depth++
					} else if src[j] == ')' {
						depth--
						if depth == 0 {
							j++
							break
						}
					}
				}
			} else {
				for j < len(src) && src[j] != ' ' && src[j] != ')' {
					j++
				}
			}
			body := src[start:j]
			// skip attributes up to the closing paren of (! ...)
			depth := 1
			for ; j < len(src); j++ {
				if src[j] == '(' {
					depth++
				} else if src[j] == ')' {
					depth--
					if depth == 0 {
						j++
						break
					}
				}
			}
			sb.WriteString(stripPatterns(body))
			i = j
			continue
		}
		sb.WriteByte(src[i])
		i++
	}
	return sb.String()
}

// setsToArrays rewrites the native (cvc5) finite-set syntax into characteristic arrays with an
// axiomatised cardinality, so that the z3 back ends (and all premise-selection stages) can be raced on
// set-valued obligations as well. cvc5 keeps the native theory.
func setsToArrays(src string) string {
	if !strings.Contains(src, "(Set Int)") && !strings.Contains(src, "set.") {
		return src
	}
	r := strings.NewReplacer(
		"(as set.empty (Set Int))", "set!empty",
		"(Set Int)", "(Array Int Bool)",
		"(set.union ", "(set!union ",
		"(set.inter ", "(set!inter ",
		"(set.minus ", "(set!minus ",
		"(set.member ", "(set!member ",
		"(set.subset ", "(set!subset ",
		"(set.singleton ", "(set!single ",
		"(set.card ", "(set!card ",
	)
	out := r.Replace(src)
	prelude := strings.Join([]string{
		"(define-fun set!empty () (Array Int Bool) ((as const (Array Int Bool)) false))",
		"(define-fun set!union ((a (Array Int Bool)) (b (Array Int Bool))) (Array Int Bool) ((_ map or) a b))",
		"(define-fun set!inter ((a (Array Int Bool)) (b (Array Int Bool))) (Array Int Bool) ((_ map and) a b))",
		"(define-fun set!minus ((a (Array Int Bool)) (b (Array Int Bool))) (Array Int Bool) ((_ map and) a ((_ map not) b)))",
		"(define-fun set!member ((x Int) (a (Array Int Bool))) Bool (select a x))",
		"(define-fun set!subset ((a (Array Int Bool)) (b (Array Int Bool))) Bool (= ((_ map and) a b) a))",
		"(define-fun set!single ((x Int)) (Array Int Bool) (store ((as const (Array Int Bool)) false) x true))",
		"(declare-fun set!card ((Array Int Bool)) Int)",
		"(assert (= (set!card set!empty) 0))",
		"(assert (forall ((a (Array Int Bool))) (! (and (>= (set!card a) 0) (=> (= (set!card a) 0) (= a set!empty))) :pattern ((set!card a)))))",
		"(assert (forall ((x Int)) (! (= (set!card (set!single x)) 1) :pattern ((set!single x)))))",
		"(assert (forall ((a (Array Int Bool)) (b (Array Int Bool))) (! (= (set!card ((_ map or) a b)) (- (+ (set!card a) (set!card b)) (set!card ((_ map and) a b)))) :pattern ((set!card ((_ map or) a b))))))",
		"(assert (forall ((a (Array Int Bool)) (b (Array Int Bool))) (! (= (set!card ((_ map and) a ((_ map not) b))) (- (set!card a) (set!card ((_ map and) a b)))) :pattern ((set!card ((_ map and) a ((_ map not) b)))))))",
		"(assert (forall ((a (Array Int Bool)) (b (Array Int Bool))) (! (and (<= (set!card ((_ map and) a b)) (set!card a)) (<= (set!card ((_ map and) a b)) (set!card b))) :pattern ((set!card ((_ map and) a b))))))",
		"(assert (forall ((a (Array Int Bool)) (b (Array Int Bool))) (! (=> (= ((_ map and) a b) a) (and (<= (set!card a) (set!card b)) (=> (= (set!card a) (set!card b)) (= a b)))) :pattern ((set!card a) (set!card b)))))",
	}, "\n")
	return strings.Replace(out, "(set-logic ALL)\n", "(set-logic ALL)\n"+prelude+"\n", 1)
}

var symRe = regexp.MustCompile(`[A-Za-z_][A-Za-z0-9_.$]*[!@][A-Za-z0-9_.!]+`)

// rescue: relevance-guided premise selection. Quantified assumptions are ranked by the versioned
// symbols they share with the goal (and, transitively, with already selected assumptions) and added
// in growing batches; any unsat answer is a proof of the full query (premises are only dropped).
func rescue(full string, fname string, budget time.Duration) *SolveResult {
	lines := strings.Split(full, "\n")
	n := len(lines)
	var qidx []int
	for i, l := range lines {
		if i < n-4 && strings.HasPrefix(l, "(assert ") && (strings.Contains(l, "(forall ") || strings.Contains(l, "(exists ")) {
			qidx = append(qidx, i)
		}
	}
	if len(qidx) == 0 {
		return nil
	}
	symsOf := func(l string) map[string]bool {
		m := map[string]bool{}
		for _, x := range symRe.FindAllString(l, -1) {
			m[x] = true
		}
		return m
	}
	goalSyms := symsOf(lines[n-3] + lines[n-4])
	// expand goal symbols through definitions once (define-fun name () ... body)
	defs := map[string]string{}
	for _, l := range lines {
		if strings.HasPrefix(l, "(define-fun ") {
			f := strings.Fields(l)
			if len(f) > 1 {
				defs[f[1]] = l
			}
		}
	}
	expand := func(m map[string]bool) {
		for round := 0; round < 3; round++ {
			for sname := range m {
				if d, ok := defs[sname]; ok {
					for x := range symsOf(d) {
						m[x] = true
					}
				}
			}
		}
	}
	expand(goalSyms)
	type cand struct {
		idx   int
		score float64
		syms  map[string]bool
	}
	var cands []*cand
	for _, i := range qidx {
		cs := symsOf(lines[i])
		expand(cs)
		cands = append(cands, &cand{idx: i, syms: cs})
	}
	df := map[string]int{}
	for _, c := range cands {
		for x := range c.syms {
			df[x]++
		}
	}
	selected := map[int]bool{}
	deadline := time.Now().Add(budget)
	batch := 1
	cur := goalSyms
	for len(selected) < len(cands) && time.Now().Before(deadline) {
		for _, c := range cands {
			if selected[c.idx] {
				continue
			}
			sh := 0.0
			for x := range c.syms {
				if cur[x] {
					sh += 1.0 / float64(df[x])
				}
			}
			c.score = sh / (1.0 + float64(len(lines[c.idx]))/4000.0)
			if strings.HasSuffix(lines[c.idx], ";@heaptyping") || strings.HasSuffix(lines[c.idx], ";@mapwf") {
				c.score *= 0.3
			}
		}
		sort.SliceStable(cands, func(a, b int) bool { return cands[a].score > cands[b].score })
		added := 0
		for _, c := range cands {
			if !selected[c.idx] && added < batch {
				selected[c.idx] = true
				added++
				for x := range c.syms {
					cur[x] = true
				}
			}
		}
		if len(selected) >= 6 {
			batch = batch + (batch+1)/2
		}
		var out []string
		for i, l := range lines {
			isQ := false
			for _, q := range qidx {
				if q == i {
					isQ = true
				}
			}
			if isQ && !selected[i] {
				continue
			}
			out = append(out, l)
		}
		rf := strings.TrimSuffix(fname, ".smt2") + ".rescue.smt2"
		if os.WriteFile(rf, []byte(strings.Join(out, "\n")), 0644) != nil {
			return nil
		}
		t0 := time.Now()
		cmd := exec.Command("z3-new", "-T:3", rf)
		var buf bytes.Buffer
		cmd.Stdout = &buf
		cmd.Stderr = &buf
		_ = cmd.Run()
		if parseStatus(buf.String()) == "unsat" {
			return &SolveResult{Status: "unsat", Solver: fmt.Sprintf("z3-new(relevance %d/%d premises)", len(selected), len(cands)), Seconds: time.Since(t0).Seconds(), Output: buf.String(), File: rf, All: map[string]string{"z3-new(relevance)": "unsat"}}
		}
	}
	return nil
}

func hashStr(s string) uint32 {
	var h uint32 = 2166136261
	for i := 0; i < len(s); i++ {
		h ^= uint32(s[i])
		h *= 16777619
	}
	return h
}

type job struct {
	vc  *VC
	o   *Obligation
	res *SolveResult
}

func SolveAll(jobs []*job, dir string, timeout int, workers int, modelVars func(*job) []string, crossCheck bool) {
	var wg sync.WaitGroup
	ch := make(chan *job)
	for w := 0; w < workers; w++ {
		wg.Add(1)
		go func() {
			defer wg.Done()
			for j := range ch {
				j.res = Solve(j.vc, j.o, dir, timeout, modelVars(j), crossCheck)
			}
		}()
	}
	for _, j := range jobs {
		ch <- j
	}
	close(ch)
	wg.Wait()
}
