package main

import (
	"bytes"
	"context"
	"fmt"
	"os"
	"os/exec"
	"path/filepath"
	"regexp"
	"sort"
	"strings"
	"sync"
	"time"
)

type SolveResult struct {
	Status  string // unsat, sat, unknown, timeout, error
	Solver  string
	Seconds float64
	Output  string
	Values  map[string]string
	File    string
	All     map[string]string // per-solver status (thorough cross-check)
}

// ScriptLight abstracts every quantified subformula by a propositional atom (equal formulas get the
// same atom; bound-variable names are canonical, so textual equality is alpha-equivalence here).
// Any proof of the abstraction is a proof of the query: the abstraction only forgets what the
// quantified formulas mean. It decides at once the many goals that follow by propositional and
// array/bit-vector reasoning from facts that are already stated.
func (vc *VC) ScriptLight(o *Obligation) (string, bool) {
	full := vc.Script(o, false, nil)
	lines := strings.Split(full, "\n")
	atoms := map[string]string{}
	var order []string
	abstract := func(l string) string {
		var sb strings.Builder
		i := 0
		for i < len(l) {
			if strings.HasPrefix(l[i:], "(forall ") || strings.HasPrefix(l[i:], "(exists ") {
				depth := 0
				j := i
				for ; j < len(l); j++ {
					if l[j] == '(' {
						depth++
					} else if l[j] == ')' {
						depth--
						if depth == 0 {
							break
						}
					}
				}
				txt := l[i : j+1]
				a, ok := atoms[txt]
				if !ok {
					a = fmt.Sprintf("Q!abs%d", len(atoms))
					atoms[txt] = a
					order = append(order, a)
				}
				sb.WriteString(a)
				i = j + 1
				continue
			}
			sb.WriteByte(l[i])
			i++
		}
		return sb.String()
	}
	var body []string
	for _, l := range lines {
		if strings.HasPrefix(l, "(assert ") || strings.HasPrefix(l, "(define-fun ") {
			l = abstract(l)
		}
		body = append(body, l)
	}
	if len(atoms) == 0 {
		return full, false
	}
	// declare the atoms right after set-logic
	var out []string
	for _, l := range body {
		out = append(out, l)
		if strings.HasPrefix(l, "(set-logic") {
			for _, a := range order {
				out = append(out, "(declare-const "+a+" Bool)")
			}
		}
	}
	return strings.Join(out, "\n"), true
}

// ScriptWithout is the query without the assumptions of the given kinds (model axioms tagged ;@kind).
// Dropping premises is sound; it keeps the quantifier instantiation of the solvers focused.
func (vc *VC) ScriptWithout(o *Obligation, kinds ...string) (string, bool) {
	full := vc.Script(o, false, nil)
	lines := strings.Split(full, "\n")
	var out []string
	dropped := false
	for _, l := range lines {
		skip := false
		for _, k := range kinds {
			if strings.HasSuffix(l, ";@"+k) {
				skip = true
			}
		}
		if skip {
			dropped = true
			continue
		}
		out = append(out, l)
	}
	return strings.Join(out, "\n"), dropped
}

func (vc *VC) Script(o *Obligation, forCVC5 bool, modelVars []string) string {
	var sb strings.Builder
	sb.WriteString("; obligation " + o.Name + "\n")
	if o.Note != "" {
		sb.WriteString("; " + strings.ReplaceAll(o.Note, "\n", " ") + "\n")
	}
	sb.WriteString("(set-option :produce-models true)\n")
	sb.WriteString("(set-logic ALL)\n")
	axioms := vc.strAxioms()
	for _, d := range vc.decls {
		sb.WriteString(d + "\n")
	}
	for _, d := range axioms {
		if o.WantSat && strings.Contains(d, "(forall") {
			continue // satisfiability (vacuity) checks run without the quantified string axioms
		}
		sb.WriteString(d + "\n")
	}
	for _, l := range vc.lines[:o.Prefix] {
		sb.WriteString(l + "\n")
	}
	sb.WriteString("(assert " + o.Guard.String() + ")\n")
	sb.WriteString("(assert (not " + o.Goal.String() + "))\n")
	sb.WriteString("(check-sat)\n")
	if len(modelVars) > 0 {
		sb.WriteString("(get-value (" + strings.Join(modelVars, " ") + "))\n")
	}
	return sb.String()
}

type solverSpec struct {
	name string
	args func(file string, timeout int) []string
	sets bool
}

var solvers = []solverSpec{
	{"z3-new", func(f string, t int) []string { return []string{"z3-new", fmt.Sprintf("-T:%d", t), f} }, false},
	{"z3", func(f string, t int) []string { return []string{"z3", fmt.Sprintf("-T:%d", t), f} }, false},
	{"cvc5", func(f string, t int) []string {
		return []string{"cvc5", fmt.Sprintf("--tlimit=%d", t*1000), "--produce-models", f}
	}, true},
}

func parseStatus(out string) string {
	for _, ln := range strings.Split(out, "\n") {
		ln = strings.TrimSpace(ln)
		switch ln {
		case "sat", "unsat", "unknown", "timeout":
			return ln
		}
		if strings.HasPrefix(ln, "(error") {
			return "error"
		}
		if ln != "" && !strings.HasPrefix(ln, ";") && !strings.HasPrefix(ln, "WARNING") {
			// unexpected first line
			if strings.Contains(ln, "interrupted by timeout") || strings.Contains(ln, "timeout") {
				return "timeout"
			}
			return "error"
		}
	}
	return "timeout"
}

func parseValues(out string) map[string]string {
	// (get-value) output: ((name value) (name value) ...)
	i := strings.Index(out, "((")
	if i < 0 {
		return nil
	}
	s := out[i:]
	vals := map[string]string{}
	// crude s-expr split at depth 1
	depth := 0
	start := -1
	for j := 0; j < len(s); j++ {
		switch s[j] {
		case '(':
			depth++
			if depth == 2 {
				start = j
			}
		case ')':
			if depth == 2 && start >= 0 {
				pair := s[start+1 : j]
				k := strings.IndexAny(pair, " \n")
				if k > 0 {
					vals[pair[:k]] = strings.TrimSpace(pair[k:])
				}
				start = -1
			}
			depth--
			if depth == 0 {
				return vals
			}
		}
	}
	return vals
}

// Solve races the installed solvers on one obligation.
func Solve(vc *VC, o *Obligation, dir string, timeout int, modelVars []string, crossCheck bool) *SolveResult {
	fname := filepath.Join(dir, sanitize(vc.Name+"__"+o.Name)+".smt2")
	if len(fname) > 240 {
		fname = fname[:200] + fmt.Sprintf("_%x.smt2", hashStr(fname))
	}
	script := vc.Script(o, false, modelVars)
	if err := os.WriteFile(fname, []byte(script), 0644); err != nil {
		return &SolveResult{Status: "error", Output: err.Error()}
	}
	npname := fname
	if np := stripPatterns(script); np != script {
		npname = strings.TrimSuffix(fname, ".smt2") + ".nopat.smt2"
		if os.WriteFile(npname, []byte(np), 0644) != nil {
			npname = fname
		}
	}
	if o.WantSat && timeout > 6 {
		timeout = 6
	}
	usesSets := strings.Contains(script, "(Set Int)") || strings.Contains(script, "set.")
	if !o.WantSat && !usesSets {
		if light, dropped := vc.ScriptLight(o); dropped {
			lf := strings.TrimSuffix(fname, ".smt2") + ".light.smt2"
			if os.WriteFile(lf, []byte(light), 0644) == nil {
				t0 := time.Now()
				cmd := exec.Command("z3-new", "-T:4", lf)
				var buf bytes.Buffer
				cmd.Stdout = &buf
				cmd.Stderr = &buf
				_ = cmd.Run()
				if parseStatus(buf.String()) == "unsat" {
					return &SolveResult{Status: "unsat", Solver: "z3-new(qf-slice)", Seconds: time.Since(t0).Seconds(), Output: buf.String(), File: lf, All: map[string]string{"z3-new(qf-slice)": "unsat"}}
				}
			}
		}
	}
	ctx, cancel := context.WithCancel(context.Background())
	defer cancel()
	type ans struct {
		r *SolveResult
	}
	ch := make(chan ans, len(solvers)+8)
	n := 0
	// sound premise slices raced alongside the full query (an unsat of a slice is an unsat of the query)
	if !o.WantSat && !usesSets {
		for vi, kinds := range [][]string{{"heaptyping", "mapwf"}, {"heaptyping"}, {"mapwf"}} {
			sl, dropped := vc.ScriptWithout(o, kinds...)
			if !dropped {
				continue
			}
			sf := strings.TrimSuffix(fname, ".smt2") + fmt.Sprintf(".slice%d.smt2", vi)
			if os.WriteFile(sf, []byte(sl), 0644) != nil {
				continue
			}
			n++
			go func(sf string, vi int) {
				t0 := time.Now()
				cmd := exec.CommandContext(ctx, "z3-new", fmt.Sprintf("-T:%d", timeout), sf)
				var buf bytes.Buffer
				cmd.Stdout = &buf
				cmd.Stderr = &buf
				_ = cmd.Run()
				st := parseStatus(buf.String())
				if st != "unsat" {
					st = "cancelled" // only a proof counts for a slice
				}
				ch <- ans{&SolveResult{Status: st, Solver: fmt.Sprintf("z3-new(slice%d)", vi), Seconds: time.Since(t0).Seconds(), Output: buf.String(), File: sf}}
			}(sf, vi)
		}
	}
	for _, s := range solvers {
		if usesSets && !s.sets {
			continue
		}
		n++
		go func(s solverSpec) {
			f := fname
			if s.name == "cvc5" {
				f = npname // cvc5 selects its own triggers
			}
			args := s.args(f, timeout)
			t0 := time.Now()
			cmd := exec.CommandContext(ctx, args[0], args[1:]...)
			var buf bytes.Buffer
			cmd.Stdout = &buf
			cmd.Stderr = &buf
			_ = cmd.Run()
			out := buf.String()
			st := parseStatus(out)
			if ctx.Err() != nil && st != "sat" && st != "unsat" {
				st = "cancelled"
			}
			r := &SolveResult{Status: st, Solver: s.name, Seconds: time.Since(t0).Seconds(), Output: out, File: fname}
			if st == "sat" {
				r.Values = parseValues(out)
			}
			ch <- ans{r}
		}(s)
	}
	if npname != fname {
		for _, bin := range []string{"z3-new", "z3"} {
			n++
			go func(bin string) {
				t0 := time.Now()
				cmd := exec.CommandContext(ctx, bin, fmt.Sprintf("-T:%d", timeout), npname)
				var buf bytes.Buffer
				cmd.Stdout = &buf
				cmd.Stderr = &buf
				_ = cmd.Run()
				st := parseStatus(buf.String())
				if ctx.Err() != nil && st != "sat" && st != "unsat" {
					st = "cancelled"
				}
				r := &SolveResult{Status: st, Solver: bin + "(auto-triggers)", Seconds: time.Since(t0).Seconds(), Output: buf.String(), File: npname}
				if st == "sat" {
					r.Values = parseValues(buf.String())
				}
				ch <- ans{r}
			}(bin)
		}
	}
	var best *SolveResult
	all := map[string]string{}
	for i := 0; i < n; i++ {
		a := <-ch
		all[a.r.Solver] = a.r.Status
		if a.r.Status == "sat" || a.r.Status == "unsat" {
			if best == nil || (best.Status != "sat" && best.Status != "unsat") {
				best = a.r
				if !crossCheck {
					cancel()
				}
			} else if crossCheck && best.Status != a.r.Status {
				best = &SolveResult{Status: "error", Solver: "cross-check", Output: fmt.Sprintf("solvers disagree: %v", all), File: fname}
			}
		} else if best == nil || (best.Status == "cancelled") || (best.Status == "error" && a.r.Status != "error" && a.r.Status != "cancelled") {
			if best == nil || best.Status != "sat" && best.Status != "unsat" {
				best = a.r
			}
		}
	}
	if best == nil {
		best = &SolveResult{Status: "error", Output: "no solver applicable", File: fname}
	}
	best.All = all
	if !o.WantSat && !usesSets && best.Status != "unsat" && best.Status != "sat" {
		if r := rescue(vc, o, fname, 60*time.Second); r != nil {
			r.All = all
			r.All["z3-new(relevance)"] = "unsat"
			return r
		}
	}
	return best
}

// stripPatterns removes (! body :pattern ...) annotations, leaving the solver's own trigger selection.
func stripPatterns(src string) string {
	if !strings.Contains(src, "(! ") {
		return src
	}
	var sb strings.Builder
	i := 0
	for i < len(src) {
		if strings.HasPrefix(src[i:], "(! ") {
			// body s-expression
			j := i + 3
			start := j
			if src[j] == '(' {
				depth := 0
				for ; j < len(src); j++ {
					if src[j] == '(' {
						depth++
					} else if src[j] == ')' {
						depth--
						if depth == 0 {
							j++
							break
						}
					}
				}
			} else {
				for j < len(src) && src[j] != ' ' && src[j] != ')' {
					j++
				}
			}
			body := src[start:j]
			// skip attributes up to the closing paren of (! ...)
			depth := 1
			for ; j < len(src); j++ {
				if src[j] == '(' {
					depth++
				} else if src[j] == ')' {
					depth--
					if depth == 0 {
						j++
						break
					}
				}
			}
			sb.WriteString(stripPatterns(body))
			i = j
			continue
		}
		sb.WriteByte(src[i])
		i++
	}
	return sb.String()
}

var symRe = regexp.MustCompile(`[A-Za-z_][A-Za-z0-9_.$]*[!@][A-Za-z0-9_.!]+`)

// rescue: relevance-guided premise selection. Quantified assumptions are ranked by the versioned
// symbols they share with the goal (and, transitively, with already selected assumptions) and added
// in growing batches; any unsat answer is a proof of the full query (premises are only dropped).
func rescue(vc *VC, o *Obligation, fname string, budget time.Duration) *SolveResult {
	full := vc.Script(o, false, nil)
	lines := strings.Split(full, "\n")
	n := len(lines)
	var qidx []int
	for i, l := range lines {
		if i < n-4 && strings.HasPrefix(l, "(assert ") && (strings.Contains(l, "(forall ") || strings.Contains(l, "(exists ")) {
			qidx = append(qidx, i)
		}
	}
	if len(qidx) == 0 {
		return nil
	}
	symsOf := func(l string) map[string]bool {
		m := map[string]bool{}
		for _, x := range symRe.FindAllString(l, -1) {
			m[x] = true
		}
		return m
	}
	goalSyms := symsOf(lines[n-3] + lines[n-4])
	// expand goal symbols through definitions once (define-fun name () ... body)
	defs := map[string]string{}
	for _, l := range lines {
		if strings.HasPrefix(l, "(define-fun ") {
			f := strings.Fields(l)
			if len(f) > 1 {
				defs[f[1]] = l
			}
		}
	}
	expand := func(m map[string]bool) {
		for round := 0; round < 3; round++ {
			for sname := range m {
				if d, ok := defs[sname]; ok {
					for x := range symsOf(d) {
						m[x] = true
					}
				}
			}
		}
	}
	expand(goalSyms)
	type cand struct {
		idx   int
		score float64
		syms  map[string]bool
	}
	var cands []*cand
	for _, i := range qidx {
		cs := symsOf(lines[i])
		expand(cs)
		cands = append(cands, &cand{idx: i, syms: cs})
	}
	df := map[string]int{}
	for _, c := range cands {
		for x := range c.syms {
			df[x]++
		}
	}
	selected := map[int]bool{}
	deadline := time.Now().Add(budget)
	batch := 1
	cur := goalSyms
	for len(selected) < len(cands) && time.Now().Before(deadline) {
		for _, c := range cands {
			if selected[c.idx] {
				continue
			}
			sh := 0.0
			for x := range c.syms {
				if cur[x] {
					sh += 1.0 / float64(df[x])
				}
			}
			c.score = sh / (1.0 + float64(len(lines[c.idx]))/4000.0)
			if strings.HasSuffix(lines[c.idx], ";@heaptyping") || strings.HasSuffix(lines[c.idx], ";@mapwf") {
				c.score *= 0.3
			}
		}
		sort.SliceStable(cands, func(a, b int) bool { return cands[a].score > cands[b].score })
		added := 0
		for _, c := range cands {
			if !selected[c.idx] && added < batch {
				selected[c.idx] = true
				added++
				for x := range c.syms {
					cur[x] = true
				}
			}
		}
		if len(selected) >= 6 {
			batch = batch + (batch+1)/2
		}
		var out []string
		for i, l := range lines {
			isQ := false
			for _, q := range qidx {
				if q == i {
					isQ = true
				}
			}
			if isQ && !selected[i] {
				continue
			}
			out = append(out, l)
		}
		rf := strings.TrimSuffix(fname, ".smt2") + ".rescue.smt2"
		if os.WriteFile(rf, []byte(strings.Join(out, "\n")), 0644) != nil {
			return nil
		}
		t0 := time.Now()
		cmd := exec.Command("z3-new", "-T:3", rf)
		var buf bytes.Buffer
		cmd.Stdout = &buf
		cmd.Stderr = &buf
		_ = cmd.Run()
		if parseStatus(buf.String()) == "unsat" {
			return &SolveResult{Status: "unsat", Solver: fmt.Sprintf("z3-new(relevance %d/%d premises)", len(selected), len(cands)), Seconds: time.Since(t0).Seconds(), Output: buf.String(), File: rf, All: map[string]string{"z3-new(relevance)": "unsat"}}
		}
	}
	return nil
}

func hashStr(s string) uint32 {
	var h uint32 = 2166136261
	for i := 0; i < len(s); i++ {
		h ^= uint32(s[i])
		h *= 16777619
	}
	return h
}

type job struct {
	vc  *VC
	o   *Obligation
	res *SolveResult
}

func SolveAll(jobs []*job, dir string, timeout int, workers int, modelVars func(*job) []string, crossCheck bool) {
	var wg sync.WaitGroup
	ch := make(chan *job)
	for w := 0; w < workers; w++ {
		wg.Add(1)
		go func() {
			defer wg.Done()
			for j := range ch {
				j.res = Solve(j.vc, j.o, dir, timeout, modelVars(j), crossCheck)
			}
		}()
	}
	for _, j := range jobs {
		ch <- j
	}
	close(ch)
	wg.Wait()
}
