package main

// VC: the per-function SMT context: declarations, passive-form definitions,
// guarded assumptions and named obligations.

import (
	"fmt"
	"go/token"
	"go/types"
	"math/big"
	"strings"
)

type IntMode int

const (
	ModeMath IntMode = iota
	ModeBV
)

type Obligation struct {
	Name        string
	Kind        string // post, inv-entry, inv-step, call-pre, safe, ovf, frame, pre-sat, cover, lemma, assert
	Tags        []string
	Guard       *Term
	Goal        *Term
	Prefix      int // number of vc.lines visible to this obligation
	WantSat     bool
	Pos         string
	Func        string
	Note        string
	LastRet     bool
	RetLine     string // source text of the return statement (post obligations)
	Excl        [][2]int // ranges of vc.lines whose assertions are not premises of this obligation (summarised inlined calls)
	noPathSplit bool
}

type VC struct {
	Name       string
	mode       IntMode
	decls      []string
	declared   map[string]bool
	lines      []string
	obls       []*Obligation
	nfresh     int
	usesSets   bool
	excl       [][2]int // active exclusion ranges, copied into every new obligation
	quantDepth int
	usesQ      bool
	strLits    map[string]*Term
	strVals    map[string]string
	defs       map[string]*Term
	typeTags   map[string]*Term
	assumes    []string // textual notes of assumptions used (trusted models, etc.)
	dropped    map[string]bool
	structs    map[string]*types.Struct
	fset       *token.FileSet
}

func NewVC(name string, mode IntMode, fset *token.FileSet) *VC {
	vc := &VC{Name: name, mode: mode, declared: map[string]bool{}, strLits: map[string]*Term{}, typeTags: map[string]*Term{}, dropped: map[string]bool{}, structs: map[string]*types.Struct{}, fset: fset}
	vc.decls = append(vc.decls, "(declare-sort Str 0)")
	vc.decls = append(vc.decls, fmt.Sprintf("(declare-datatypes ((Slc 0)) (((mk_slc (slc_ptr Int) (slc_off %s) (slc_len %s) (slc_cap %s)))))", vc.IntSort(), vc.IntSort(), vc.IntSort()))
	vc.decls = append(vc.decls, "(declare-datatypes ((Unit 0)) (((unit))))")
	return vc
}

func (vc *VC) IntSort() Sort {
	if vc.mode == ModeBV {
		return SBV64
	}
	return SInt
}

func (vc *VC) note(s string) {
	for _, a := range vc.assumes {
		if a == s {
			return
		}
	}
	vc.assumes = append(vc.assumes, s)
}

func (vc *VC) drop(s string) { vc.dropped[s] = true }

func (vc *VC) declare(name string, decl string) {
	if vc.declared[name] {
		return
	}
	vc.declared[name] = true
	vc.decls = append(vc.decls, decl)
}

func (vc *VC) fresh(prefix string) string {
	vc.nfresh++
	return fmt.Sprintf("%s!%d", sanitize(prefix), vc.nfresh)
}

func sanitize(s string) string {
	var sb strings.Builder
	for _, r := range s {
		switch {
		case r >= 'a' && r <= 'z', r >= 'A' && r <= 'Z', r >= '0' && r <= '9', r == '_', r == '.', r == '$', r == '!', r == '@':
			sb.WriteRune(r)
		case r == '*':
			sb.WriteString("p_")
		case r == '/', r == ' ', r == '(', r == ')', r == '[', r == ']', r == ',', r == '{', r == '}', r == ';':
			sb.WriteRune('_')
		default:
			sb.WriteRune('_')
		}
	}
	return sb.String()
}

// FreshConst declares a fresh constant of the given sort.
func (vc *VC) FreshConst(prefix string, s Sort) *Term {
	if vc.quantDepth > 0 {
		panic(specErr{"a fresh constant (" + prefix + ") is needed under a quantifier: the quantified expression calls code that is not a pure term"})
	}
	n := vc.fresh(prefix)
	vc.noteSort(s)
	vc.lines = append(vc.lines, fmt.Sprintf("(declare-const %s %s)", n, s))
	return Sym(n, s)
}

// Def names a term (define-fun) and returns the symbol.
func (vc *VC) Def(prefix string, t *Term) *Term {
	if t.IsLeaf() || vc.quantDepth > 0 {
		return t
	}
	n := vc.fresh(prefix)
	vc.noteSort(t.Sort)
	vc.noteTerm(t)
	vc.lines = append(vc.lines, fmt.Sprintf("(define-fun %s () %s %s)", n, t.Sort, t.String()))
	if vc.defs == nil {
		vc.defs = map[string]*Term{}
	}
	vc.defs[n] = t
	return Sym(n, t.Sort)
}

func (vc *VC) noteSort(s Sort) {
	if sortUsesSets(s) {
		vc.usesSets = true
	}
}

func (vc *VC) noteTerm(t *Term) {
	if vc.usesSets && vc.usesQ {
		return
	}
	var walk func(t *Term)
	walk = func(t *Term) {
		if len(t.Bound) > 0 {
			vc.usesQ = true
		}
		if sortUsesSets(t.Sort) {
			vc.usesSets = true
		}
		for _, a := range t.Args {
			walk(a)
		}
	}
	walk(t)
}

// Assume adds a guarded assumption.
func (vc *VC) Assume(guard, fact *Term) {
	if vc.quantDepth > 0 {
		return // typing facts about terms under a quantifier are dropped
	}
	f := Implies(guard, fact)
	if IsTrue(f) {
		return
	}
	vc.noteTerm(f)
	vc.lines = append(vc.lines, fmt.Sprintf("(assert %s)", f.String()))
}

func (vc *VC) Oblige(o *Obligation) {
	if o.Excl == nil && len(vc.excl) > 0 {
		o.Excl = append([][2]int{}, vc.excl...)
	}
	// split conjunctions into separate, smaller queries
	if !o.WantSat && o.Goal.Op == "and" && len(o.Goal.Bound) == 0 && len(o.Goal.Args) > 1 && vc.quantDepth == 0 {
		for i, g := range o.Goal.Args {
			c := *o
			c.Goal = g
			c.Name = fmt.Sprintf("%s.%d", o.Name, i+1)
			vc.Oblige(&c)
		}
		return
	}
	if !o.WantSat && o.Goal.Op == "=>" && len(o.Goal.Args) == 2 && o.Goal.Args[1].Op == "and" && len(o.Goal.Args[1].Bound) == 0 && vc.quantDepth == 0 {
		for i, g := range o.Goal.Args[1].Args {
			c := *o
			c.Goal = Implies(o.Goal.Args[0], g)
			c.Name = fmt.Sprintf("%s.%d", o.Name, i+1)
			vc.Oblige(&c)
		}
		return
	}
	// split by the disjuncts of the reachability condition (one query per incoming path of a join)
	if !o.WantSat && !o.noPathSplit && vc.quantDepth == 0 {
		// find a conjunct of the guard that is (defined as) a disjunction
		conj := []*Term{o.Guard}
		if o.Guard.Op == "and" && len(o.Guard.Bound) == 0 {
			conj = o.Guard.Args
		}
		for _, c := range conj {
			g := c
			if g.IsLeaf() {
				if d, ok := vc.defs[g.Op]; ok {
					g = d
				}
			}
			if g.Op == "or" && len(g.Bound) == 0 && len(g.Args) > 1 && len(g.Args) <= 6 {
				for i, d := range g.Args {
					cp := *o
					cp.Guard = And(o.Guard, d)
					cp.Name = fmt.Sprintf("%s/path%d", o.Name, i+1)
					cp.noPathSplit = true
					vc.Oblige(&cp)
				}
				return
			}
		}
	}
	o.Prefix = len(vc.lines)
	vc.noteTerm(o.Goal)
	vc.noteTerm(o.Guard)
	vc.obls = append(vc.obls, o)
}

// ---- sorts of Go types ----------------------------------------------------

const cpusetPath = "k8s.io/utils/cpuset.CPUSet"

func isCPUSet(t types.Type) bool {
	if n, ok := t.(*types.Named); ok {
		o := n.Obj()
		if o.Pkg() != nil && o.Pkg().Path()+"."+o.Name() == cpusetPath {
			return true
		}
	}
	if a, ok := t.(*types.Alias); ok {
		return isCPUSet(types.Unalias(a))
	}
	return false
}

func isIDSet(t types.Type) bool {
	t = types.Unalias(t)
	if n, ok := t.(*types.Named); ok {
		o := n.Obj()
		if o.Pkg() != nil && strings.HasSuffix(o.Pkg().Path(), "goresctrl/pkg/utils") && o.Name() == "IDSet" {
			return true
		}
	}
	return false
}

func typeKey(t types.Type) string {
	return sanitize(types.TypeString(t, func(p *types.Package) string { return p.Name() }))
}

// SpecArr is a specification-only type: a total array (snapshot of a map's domain or values).
type SpecArr struct{ K, V types.Type }

func (s *SpecArr) Underlying() types.Type { return s }
func (s *SpecArr) String() string         { return "arr[" + s.K.String() + "]" + s.V.String() }

func (vc *VC) SortOf(t types.Type) Sort {
	if sa, ok := t.(*SpecArr); ok {
		return ArraySort(vc.SortOf(sa.K), vc.SortOf(sa.V))
	}
	t = types.Unalias(t)
	if isCPUSet(t) {
		vc.usesSets = true
		return SSet
	}
	switch u := t.Underlying().(type) {
	case *types.Basic:
		switch {
		case u.Info()&types.IsBoolean != 0:
			return SBool
		case u.Info()&types.IsInteger != 0:
			return vc.IntSort()
		case u.Info()&types.IsFloat != 0:
			return SReal
		case u.Info()&types.IsString != 0:
			return SStr
		case u.Kind() == types.UnsafePointer:
			return SInt
		case u.Kind() == types.UntypedNil:
			return SInt
		}
	case *types.Pointer, *types.Map, *types.Interface, *types.Chan, *types.Signature:
		return SInt
	case *types.Slice:
		return SSlc
	case *types.Array:
		return ArraySort(vc.IntSort(), vc.SortOf(u.Elem()))
	case *types.Struct:
		if u.NumFields() == 0 {
			return SUnit
		}
		return vc.structSort(t, u)
	case *types.Tuple:
		return SUnit
	}
	panic(unsupported("sort of type " + t.String()))
}

func (vc *VC) structSort(t types.Type, u *types.Struct) Sort {
	name := "S_" + typeKey(t)
	if _, ok := t.(*types.Named); !ok {
		name = "S_anon_" + typeKey(t)
	}
	if vc.declared[name] {
		return Sort(name)
	}
	vc.declared[name] = true // guard recursion
	vc.structs[name] = u
	var fs []string
	for i := 0; i < u.NumFields(); i++ {
		f := u.Field(i)
		fs = append(fs, fmt.Sprintf("(%s_%s %s)", name, sanitize(f.Name()), vc.SortOf(f.Type())))
	}
	vc.decls = append(vc.decls, fmt.Sprintf("(declare-datatypes ((%s 0)) (((mk_%s %s))))", name, name, strings.Join(fs, " ")))
	return Sort(name)
}

func (vc *VC) StructSel(structSort Sort, fieldName string, x *Term, fs Sort) *Term {
	return App(string(structSort)+"_"+sanitize(fieldName), fs, x)
}

func (vc *VC) StructMk(structSort Sort, fields []*Term) *Term {
	return App("mk_"+string(structSort), structSort, fields...)
}

// Zero value of a Go type.
func (vc *VC) Zero(t types.Type) *Term {
	t = types.Unalias(t)
	if isCPUSet(t) {
		return vc.EmptySet()
	}
	switch u := t.Underlying().(type) {
	case *types.Basic:
		switch {
		case u.Info()&types.IsBoolean != 0:
			return TFalse
		case u.Info()&types.IsInteger != 0:
			return vc.IntConst(0)
		case u.Info()&types.IsFloat != 0:
			return RealLit(big.NewRat(0, 1))
		case u.Info()&types.IsString != 0:
			return vc.StrLit("")
		default:
			return IntLit(0)
		}
	case *types.Pointer, *types.Map, *types.Interface, *types.Chan, *types.Signature:
		return IntLit(0)
	case *types.Slice:
		return vc.MkSlice(IntLit(0), vc.IntConst(0), vc.IntConst(0), vc.IntConst(0))
	case *types.Struct:
		if u.NumFields() == 0 {
			return Sym("unit", SUnit)
		}
		s := vc.SortOf(t)
		var fs []*Term
		for i := 0; i < u.NumFields(); i++ {
			fs = append(fs, vc.Zero(u.Field(i).Type()))
		}
		return vc.StructMk(s, fs)
	case *types.Array:
		es := vc.SortOf(u.Elem())
		return App("(as const "+string(ArraySort(vc.IntSort(), es))+")", ArraySort(vc.IntSort(), es), vc.Zero(u.Elem()))
	}
	panic(unsupported("zero of type " + t.String()))
}

func (vc *VC) EmptySet() *Term {
	vc.usesSets = true
	return Sym("(as set.empty (Set Int))", SSet)
}

func (vc *VC) IntConst(v int64) *Term { return vc.IntBig(big.NewInt(v)) }

func (vc *VC) IntBig(v *big.Int) *Term {
	if vc.mode == ModeBV {
		return BVLit(v)
	}
	return BigLit(v)
}

func (vc *VC) StrLit(s string) *Term {
	if t, ok := vc.strLits[s]; ok {
		return t
	}
	name := fmt.Sprintf("str!%d", len(vc.strLits))
	vc.decls = append(vc.decls, fmt.Sprintf("(declare-const %s Str) ; %q", name, s))
	t := Sym(name, SStr)
	vc.strLits[s] = t
	if vc.strVals == nil {
		vc.strVals = map[string]string{}
	}
	vc.strVals[name] = s
	vc.declare("strlen", "(declare-fun strlen (Str) Int)")
	vc.decls = append(vc.decls, fmt.Sprintf("(assert (= (strlen %s) %d))", name, len(s)))
	return t
}

// literal distinctness must be emitted at the end
func (vc *VC) strAxioms() []string {
	var out []string
	if vc.declared["strcat"] {
		vc.declare("strlen", "(declare-fun strlen (Str) Int)")
		out = append(out, "(assert (forall ((a Str) (b Str)) (! (= (strlen (strcat a b)) (+ (strlen a) (strlen b))) :pattern ((strcat a b)))))")
		// concatenation is cancellative on both sides (free monoid): uninterpreted inverses
		vc.declare("strcat.l", "(declare-fun strcat.l (Str Str) Str)")
		vc.declare("strcat.r", "(declare-fun strcat.r (Str Str) Str)")
		out = append(out, "(assert (forall ((a Str) (b Str)) (! (and (= (strcat.r a (strcat a b)) b) (= (strcat.l b (strcat a b)) a)) :pattern ((strcat a b)))))")
	}
	if len(vc.strLits) > 1 {
		var names []string
		for _, k := range sortedKeys(vc.strLits) {
			names = append(names, vc.strLits[k].Op)
		}
		out = append(out, "(assert (distinct "+strings.Join(names, " ")+"))")
	}
	if vc.declared["strlen"] {
		out = append(out, "(assert (forall ((s Str)) (>= (strlen s) 0)))")
		if e, ok := vc.strLits[""]; ok {
			out = append(out, fmt.Sprintf("(assert (forall ((s Str)) (=> (= (strlen s) 0) (= s %s))))", e.Op))
		}
	}
	if len(vc.typeTags) > 1 {
		var names []string
		for _, k := range sortedKeys(vc.typeTags) {
			names = append(names, vc.typeTags[k].Op)
		}
		out = append(out, "(assert (distinct "+strings.Join(names, " ")+"))")
	}
	return out
}

func (vc *VC) TypeTag(t types.Type) *Term {
	k := typeKey(t)
	if tt, ok := vc.typeTags[k]; ok {
		return tt
	}
	name := "tag!" + k
	vc.decls = append(vc.decls, fmt.Sprintf("(declare-const %s Int)", name))
	tt := Sym(name, SInt)
	vc.typeTags[k] = tt
	return tt
}

func (vc *VC) TypeOf(ref *Term) *Term {
	vc.declare("typeof", "(declare-fun typeof (Int) Int)")
	return App("typeof", SInt, ref)
}

func (vc *VC) MkSlice(ptr, off, ln, cp *Term) *Term { return App("mk_slc", SSlc, ptr, off, ln, cp) }
func (vc *VC) SlicePtr(s *Term) *Term {
	if s.Op == "mk_slc" {
		return s.Args[0]
	}
	return App("slc_ptr", SInt, s)
}
func (vc *VC) SliceOff(s *Term) *Term {
	if s.Op == "mk_slc" {
		return s.Args[1]
	}
	return App("slc_off", vc.IntSort(), s)
}
func (vc *VC) SliceLen(s *Term) *Term {
	if s.Op == "mk_slc" {
		return s.Args[2]
	}
	return App("slc_len", vc.IntSort(), s)
}
func (vc *VC) SliceCap(s *Term) *Term {
	if s.Op == "mk_slc" {
		return s.Args[3]
	}
	return App("slc_cap", vc.IntSort(), s)
}

// ---- integer operations (mode dependent) ------------------------------------

func isUnsigned(t types.Type) bool {
	if t == nil {
		return false
	}
	if b, ok := t.Underlying().(*types.Basic); ok {
		return b.Info()&types.IsUnsigned != 0
	}
	return false
}

func intBits(t types.Type) int {
	b, ok := t.Underlying().(*types.Basic)
	if !ok {
		return 64
	}
	switch b.Kind() {
	case types.Int8, types.Uint8:
		return 8
	case types.Int16, types.Uint16:
		return 16
	case types.Int32, types.Uint32:
		return 32
	}
	return 64
}

// IntRange returns the assumption lo <= x <= hi for the Go integer type (math mode only).
func (vc *VC) IntRange(x *Term, t types.Type) *Term {
	if vc.mode == ModeBV || x.Sort != SInt {
		if vc.mode == ModeBV && x.Sort == SBV64 {
			bits := intBits(t)
			if bits < 64 {
				if isUnsigned(t) {
					return App("bvult", SBool, x, BVLit(new(big.Int).Lsh(big.NewInt(1), uint(bits))))
				}
				lo := new(big.Int).Neg(new(big.Int).Lsh(big.NewInt(1), uint(bits-1)))
				hi := new(big.Int).Lsh(big.NewInt(1), uint(bits-1))
				return And(App("bvsle", SBool, BVLit(lo), x), App("bvslt", SBool, x, BVLit(hi)))
			}
		}
		return TTrue
	}
	bits := intBits(t)
	var lo, hi *big.Int
	if isUnsigned(t) {
		lo = big.NewInt(0)
		hi = new(big.Int).Sub(new(big.Int).Lsh(big.NewInt(1), uint(bits)), big.NewInt(1))
	} else {
		lo = new(big.Int).Neg(new(big.Int).Lsh(big.NewInt(1), uint(bits-1)))
		hi = new(big.Int).Sub(new(big.Int).Lsh(big.NewInt(1), uint(bits-1)), big.NewInt(1))
	}
	return And(App("<=", SBool, BigLit(lo), x), App("<=", SBool, x, BigLit(hi)))
}

func foldInt(op string, a, b *Term) *Term {
	av, aok := a.IntVal()
	bv, bok := b.IntVal()
	if !aok || !bok || a.Sort != SInt {
		return nil
	}
	r := new(big.Int)
	switch op {
	case "+":
		r.Add(av, bv)
	case "-":
		r.Sub(av, bv)
	case "*":
		r.Mul(av, bv)
	default:
		return nil
	}
	return BigLit(r)
}

func foldCmp(op string, a, b *Term) *Term {
	av, aok := a.IntVal()
	bv, bok := b.IntVal()
	if !aok || !bok || a.Sort != SInt {
		return nil
	}
	c := av.Cmp(bv)
	var r bool
	switch op {
	case "<":
		r = c < 0
	case "<=":
		r = c <= 0
	case ">":
		r = c > 0
	case ">=":
		r = c >= 0
	default:
		return nil
	}
	if r {
		return TTrue
	}
	return TFalse
}

// Arith builds x op y for Go integer semantics (division truncates toward zero).
func (vc *VC) Arith(op string, x, y *Term, t types.Type) *Term {
	if x.Sort == SReal {
		switch op {
		case "+", "-", "*", "/":
			return App(op, SReal, x, y)
		}
		panic(unsupported("real op " + op))
	}
	if x.Sort == SSet {
		panic(unsupported("set arithmetic"))
	}
	uns := isUnsigned(t)
	if vc.mode == ModeBV {
		switch op {
		case "+":
			return App("bvadd", SBV64, x, y)
		case "-":
			return App("bvsub", SBV64, x, y)
		case "*":
			return App("bvmul", SBV64, x, y)
		case "/":
			if uns {
				return App("bvudiv", SBV64, x, y)
			}
			return App("bvsdiv", SBV64, x, y)
		case "%":
			if uns {
				return App("bvurem", SBV64, x, y)
			}
			return App("bvsrem", SBV64, x, y)
		case "&":
			return App("bvand", SBV64, x, y)
		case "|":
			return App("bvor", SBV64, x, y)
		case "^":
			return App("bvxor", SBV64, x, y)
		case "&^":
			return App("bvand", SBV64, x, App("bvnot", SBV64, y))
		case "<<":
			// Go: shift count >= 64 gives 0
			return Ite(App("bvuge", SBool, y, BVLit(big.NewInt(64))), BVLit(big.NewInt(0)), App("bvshl", SBV64, x, y))
		case ">>":
			if uns {
				return Ite(App("bvuge", SBool, y, BVLit(big.NewInt(64))), BVLit(big.NewInt(0)), App("bvlshr", SBV64, x, y))
			}
			return App("bvashr", SBV64, x, y)
		}
		panic(unsupported("bv op " + op))
	}
	switch op {
	case "+", "-", "*":
		if f := foldInt(op, x, y); f != nil {
			return f
		}
		return App(op, SInt, x, y)
	case "/":
		// truncated division
		if uns {
			return App("div", SInt, x, y)
		}
		return vc.truncDiv(x, y)
	case "%":
		if uns {
			return App("mod", SInt, x, y)
		}
		return App("-", SInt, x, App("*", SInt, y, vc.truncDiv(x, y)))
	case "&":
		// bit test against a constant mask (math mode): sum of the selected bits
		c, v := y, x
		cv, ok := c.IntVal()
		if !ok {
			c, v = x, y
			cv, ok = c.IntVal()
		}
		if ok && cv.Sign() >= 0 && cv.BitLen() <= 64 {
			var sum *Term = IntLit(0)
			n := 0
			for i := 0; i < cv.BitLen(); i++ {
				if cv.Bit(i) == 1 {
					p := BigLit(new(big.Int).Lsh(big.NewInt(1), uint(i)))
					bit := Ite(Eq(App("mod", SInt, App("div", SInt, v, p), IntLit(2)), IntLit(1)), p, IntLit(0))
					if n == 0 {
						sum = bit
					} else {
						sum = App("+", SInt, sum, bit)
					}
					n++
				}
			}
			if n <= 8 {
				return sum
			}
		}
	case "<<":
		if yv, ok := y.IntVal(); ok && yv.IsInt64() && yv.Int64() < 128 {
			return vc.Arith("*", x, BigLit(new(big.Int).Lsh(big.NewInt(1), uint(yv.Int64()))), t)
		}
	case ">>":
		if yv, ok := y.IntVal(); ok && yv.IsInt64() && yv.Int64() < 128 {
			return App("div", SInt, x, BigLit(new(big.Int).Lsh(big.NewInt(1), uint(yv.Int64()))))
		}
	}
	panic(unsupported("math-mode integer op " + op + " (use ints=bv64)"))
}

func (vc *VC) truncDiv(x, y *Term) *Term {
	// SMT div is floor for positive divisor, ceil for negative; Go truncates toward zero.
	if yv, ok := y.IntVal(); ok && yv.Sign() > 0 {
		return Ite(App(">=", SBool, x, IntLit(0)), App("div", SInt, x, y), App("-", SInt, App("div", SInt, App("-", SInt, x), y)))
	}
	ax := Ite(App(">=", SBool, x, IntLit(0)), x, App("-", SInt, x))
	ay := Ite(App(">=", SBool, y, IntLit(0)), y, App("-", SInt, y))
	q := App("div", SInt, ax, ay)
	sameSign := Eq(App(">=", SBool, x, IntLit(0)), App(">=", SBool, y, IntLit(0)))
	return Ite(sameSign, q, App("-", SInt, q))
}

func (vc *VC) Cmp(op string, x, y *Term, t types.Type) *Term {
	if x.Sort != y.Sort {
		panic(fmt.Sprintf("Cmp sort mismatch %s:%s %s %s:%s", x, x.Sort, op, y, y.Sort))
	}
	switch op {
	case "==":
		return Eq(x, y)
	case "!=":
		return Not(Eq(x, y))
	}
	if x.Sort == SBV64 {
		uns := isUnsigned(t)
		m := map[string][2]string{"<": {"bvslt", "bvult"}, "<=": {"bvsle", "bvule"}, ">": {"bvsgt", "bvugt"}, ">=": {"bvsge", "bvuge"}}
		o := m[op][0]
		if uns {
			o = m[op][1]
		}
		return App(o, SBool, x, y)
	}
	if x.Sort == SInt || x.Sort == SReal {
		if f := foldCmp(op, x, y); f != nil {
			return f
		}
		return App(op, SBool, x, y)
	}
	if x.Sort == SStr {
		vc.declare("strlt", "(declare-fun strlt (Str Str) Bool)")
		switch op {
		case "<":
			return App("strlt", SBool, x, y)
		case ">":
			return App("strlt", SBool, y, x)
		case "<=":
			return Not(App("strlt", SBool, y, x))
		case ">=":
			return Not(App("strlt", SBool, x, y))
		}
	}
	panic(unsupported("comparison " + op + " on sort " + string(x.Sort)))
}

// ---- sets ---------------------------------------------------------------------

func (vc *VC) SetOp(op string, args ...*Term) *Term {
	vc.usesSets = true
	switch op {
	case "union":
		return App("set.union", SSet, args...)
	case "inter":
		return App("set.inter", SSet, args...)
	case "minus":
		return App("set.minus", SSet, args...)
	case "card":
		c := App("set.card", SInt, args...)
		if vc.mode == ModeBV {
			panic(unsupported("set cardinality in bv mode"))
		}
		return c
	case "member":
		return App("set.member", SBool, args...)
	case "subset":
		return App("set.subset", SBool, args...)
	case "singleton":
		return App("set.singleton", SSet, args...)
	}
	panic("bad set op " + op)
}

type unsupportedErr struct{ msg string }

func (u unsupportedErr) Error() string { return "unsupported: " + u.msg }
func unsupported(msg string) error     { return unsupportedErr{msg} }

// StrCat builds string concatenation, folding literals.
func (vc *VC) StrCat(a, b *Term) *Term {
	if a.IsLeaf() && b.IsLeaf() {
		av, ok1 := vc.strVals[a.Op]
		bv, ok2 := vc.strVals[b.Op]
		if ok1 && ok2 {
			return vc.StrLit(av + bv)
		}
	}
	if a.IsLeaf() {
		if av, ok := vc.strVals[a.Op]; ok && av == "" {
			return b
		}
	}
	if b.IsLeaf() {
		if bv, ok := vc.strVals[b.Op]; ok && bv == "" {
			return a
		}
	}
	vc.declare("strcat", "(declare-fun strcat (Str Str) Str)")
	vc.declare("strlen", "(declare-fun strlen (Str) Int)")
	return App("strcat", SStr, a, b)
}

// distinctRefs: syntactically distinct allocation results / literals.
func distinctRefs(a, b *Term) bool {
	if !a.IsLeaf() || !b.IsLeaf() || a.Op == b.Op {
		return false
	}
	isFresh := func(t *Term) bool { return strings.HasPrefix(t.Op, "ref.") || strings.HasPrefix(t.Op, "funcval!") }
	if isFresh(a) && isFresh(b) {
		return true
	}
	av, aok := a.IntVal()
	bv, bok := b.IntVal()
	if aok && bok {
		return av.Cmp(bv) != 0
	}
	// a fresh reference is positive, hence distinct from nil
	if (isFresh(a) && bok && bv.Sign() == 0) || (isFresh(b) && aok && av.Sign() == 0) {
		return true
	}
	return false
}

// SelectThrough resolves select over chains of stores (looking through named definitions).
func (vc *VC) SelectThrough(arr, idx *Term) *Term {
	cur := arr
	for depth := 0; depth < 64; depth++ {
		t := cur
		if t.IsLeaf() {
			d, ok := vc.defs[t.Op]
			if !ok {
				break
			}
			t = d
		}
		if t.Op == "store" && len(t.Args) == 3 {
			if sameTerm(t.Args[1], idx) {
				return t.Args[2]
			}
			if distinctRefs(t.Args[1], idx) {
				cur = t.Args[0]
				continue
			}
		}
		break
	}
	if cur != arr {
		return Select(cur, idx)
	}
	return Select(arr, idx)
}

// SliceAt reads element i of a slice view (backing array arr, offset off). With a literal zero offset
// this is a plain select; otherwise an uninterpreted accessor sl.at(arr, off, i) defined by
// sl.at(arr, off, i) = arr[off+i], so that quantified facts about slice elements can be triggered on
// the index term itself (arithmetic inside triggers does not match reliably).
func (vc *VC) SliceAt(arr, off, i *Term) *Term {
	if v, ok := off.IntVal(); ok && v.Sign() == 0 {
		return Select(arr, i)
	}
	es := arr.Sort.ElemSort()
	name := "sl.at." + sanitize(string(es))
	if !vc.declared[name] {
		vc.declare(name, fmt.Sprintf("(declare-fun %s (%s %s %s) %s)", name, arr.Sort, off.Sort, i.Sort, es))
		plus := "+"
		if off.Sort == SBV64 {
			plus = "bvadd"
		}
		vc.decls = append(vc.decls, fmt.Sprintf("(assert (forall ((a %s) (o %s) (i %s)) (! (= (%s a o i) (select a (%s o i))) :pattern ((%s a o i)))))", arr.Sort, off.Sort, i.Sort, name, plus, name))
	}
	return App(name, es, arr, off, i)
}
