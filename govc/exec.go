package main

// Symbolic execution of go/ssa function bodies into passive-form verification conditions.

import (
	"fmt"
	"go/ast"
	"go/constant"
	"go/token"
	"go/types"
	"math/big"
	"sort"
	"strings"

	"golang.org/x/tools/go/ssa"
)

// ---- values ------------------------------------------------------------------------

type Value interface{}

type pathElem struct {
	structSort Sort
	structT    *types.Struct
	field      int
	index      *Term // non-nil: an array element selection instead of a struct field
}

// Addr is an interior pointer tracked by the executor (never stored in the SMT heap).
type Addr struct {
	sliceOff *Term // slice element: idx = [ptr, off+i]; sliceOff/sliceIdx keep the parts
	sliceIdx *Term
	comp     string
	compSort Sort
	idx      []*Term
	path     []pathElem
	typ      types.Type // pointee type
}

type Closure struct {
	fn       *ssa.Function
	bindings []Value
}

type Tuple []Value

type FuncVal struct{ fn *ssa.Function }

// BoundMethod: method value / bound closure (x.M as value)
type IterVal struct {
	mapRef *Term
	seen   *Term // symbol name of ghost component for the seen-set
	kt, vt types.Type
	id     string
}

// ---- state ---------------------------------------------------------------------------

type State struct {
	heap  map[string]*Term
	epoch string
	mix   []epochPart // non-empty: this state is the join of states from different havoc epochs
}

type epochPart struct {
	reach *Term
	st    *State
}

func (s *State) clone() *State {
	h := make(map[string]*Term, len(s.heap))
	for k, v := range s.heap {
		h[k] = v
	}
	return &State{heap: h, epoch: s.epoch, mix: s.mix}
}

type Exec struct {
	callFree []Value // captured-variable cells of the closure whose contract is being applied (set by callFunc)
	eng       *Engine
	vc        *VC
	top       *ssa.Function
	scope     string // package whose interface contracts apply (lemmas: the lemma's package)
	freshScan map[*ssa.Function]map[string]bool
	inferBusy map[*ssa.Function]bool
	topC      *FuncContract
	safety    bool
	ovfCheck  bool
	mayPanic  bool
	inlineMax int
	compSorts map[string]Sort
	iterN     int
	allocN    int
	callN     map[string]int
	safeN     map[string]int
	stack     []*ssa.Function
	panics    []*exit // panic exits collected for the top function
	unsupp    []string
	ghostSeen map[*ssa.Range]string
	floatOps  [][2]*Term
	mapTypes  map[string]*types.Map
	funcVals  map[string]Value
	addrVals  map[string]*Addr      // first-class references of boxed interior addresses
	boxedPtr  map[string]types.Type // static pointer type of pointer terms boxed into interfaces
	curReach  *Term
	funcAssumed map[string]bool
	scanState *State
	funcRefs  map[Value]*Term
	refComps  map[string]bool
	assertN   int
	assertsHit map[string]bool
	warn      []string
}

type exit struct {
	reach   *Term
	st      *State
	results []Value
	isPanic bool
	pos     token.Pos
	what    string
}

type frame struct {
	fn       *ssa.Function
	env      map[ssa.Value]Value
	free     []Value
	depth    int
	defers   []deferred
	old      *State
	args     []Value
	lets     map[string]specBinding
	contract *FuncContract
	isTop    bool
	dbg      map[types.Object][]*ssa.DebugRef
	retIdx   int
	deferRun bool
	assertDone map[string]bool
	assertHit  bool
}

type deferred struct {
	call  *ssa.CallCommon
	args  []Value
	fnv   Value
	reach *Term // condition under which the defer was pushed
	instr ssa.Instruction
}

func (ex *Exec) comp(st *State, name string, sort Sort) *Term {
	if t, ok := st.heap[name]; ok {
		return t
	}
	if old, ok := ex.compSorts[name]; ok && old != sort {
		panic(fmt.Sprintf("component %s used at sorts %s and %s", name, old, sort))
	}
	ex.compSorts[name] = sort
	ex.vc.noteSort(sort)
	if len(st.mix) > 0 {
		// join of different epochs: the component is the guarded choice of the parts' components
		var acc *Term
		for i := len(st.mix) - 1; i >= 0; i-- {
			v := ex.comp(st.mix[i].st, name, sort)
			if acc == nil {
				acc = v
			} else {
				acc = Ite(st.mix[i].reach, v, acc)
			}
		}
		if len(acc.Args) > 0 && ex.vc.quantDepth == 0 {
			acc = ex.vc.Def(name, acc)
		}
		st.heap[name] = acc
		return acc
	}
	sym := name + "@" + st.epoch
	isNew := !ex.vc.declared[sym]
	ex.vc.declare(sym, fmt.Sprintf("(declare-const %s %s)", sym, sort))
	t := Sym(sym, sort)
	st.heap[name] = t
	if isNew && strings.HasPrefix(name, "MV.") {
		ex.mapWFGlobal(st, name)
	}
	if isNew && ex.refComps[name] && name != "alive" {
		ex.heapTyping(st, name, t)
	}
	return t
}

// heapTyping: every reference stored in the (initial version of a) component is nil or allocated.
func (ex *Exec) heapTyping(st *State, name string, c *Term) {
	// relative to the allocation state at the beginning of the epoch the component version belongs to
	al := ex.alive(&State{heap: map[string]*Term{}, epoch: st.epoch})
	okRef := func(v *Term) *Term { return Or(Eq(v, IntLit(0)), And(App(">", SBool, v, IntLit(0)), Select(al, v))) }
	var f *Term
	switch {
	case c.Sort == ArraySort(SInt, SInt):
		r := Sym("r!q", SInt)
		f = Forall([]*Term{r}, Implies(Select(al, r), okRef(Select(c, r))))
	case c.Sort.IsArray() && c.Sort.ElemSort().IsArray() && c.Sort.ElemSort().ElemSort() == SInt:
		r := Sym("r!q", SInt)
		k := Sym("k!q", c.Sort.ElemSort().IndexSort())
		f = Forall([]*Term{r, k}, Implies(Select(al, r), okRef(Select(Select(c, r), k))))
	default:
		return
	}
	ex.vc.usesQ = true
	ex.vc.lines = append(ex.vc.lines, "(assert "+f.String()+") ;@heaptyping")
}

func (ex *Exec) markRef(name string, t types.Type) {
	if isPointerLike(t) || func() bool { _, ok := types.Unalias(t).Underlying().(*types.Interface); return ok }() {
		if ex.refComps == nil {
			ex.refComps = map[string]bool{}
		}
		ex.refComps[name] = true
	}
}

// mapWFGlobal asserts the model invariant of maps for a (new version of a) value component:
// keys outside a map's domain read as the zero value.
func (ex *Exec) mapWFGlobal(st *State, mvName string) {
	mt, ok := ex.mapTypes[mvName]
	if !ok {
		return
	}
	d, v, _, ks, vs := ex.mapComps(mt)
	dom := ex.comp(st, d, ArraySort(SInt, ArraySort(ks, SBool)))
	val := ex.comp(st, v, ArraySort(SInt, ArraySort(ks, vs)))
	m := Sym("m!q", SInt)
	k := Sym("k!q", ks)
	f := Forall([]*Term{m, k}, Implies(Not(Select(Select(dom, m), k)), Eq(Select(Select(val, m), k), ex.vc.Zero(mt.Elem()))))
	f.Pats = [][]*Term{{Select(Select(val, m), k)}}
	ex.vc.usesQ = true
	ex.vc.lines = append(ex.vc.lines, "(assert "+f.String()+") ;@mapwf")
	// the nil map is empty
	fn := Forall([]*Term{k}, Not(Select(Select(dom, IntLit(0)), k)))
	ex.vc.lines = append(ex.vc.lines, "(assert "+fn.String()+") ;@mapwf")
}

func (ex *Exec) setComp(st *State, name string, v *Term) {
	if len(v.Args) > 0 {
		v = ex.vc.Def(name, v)
	}
	st.heap[name] = v
}

func (ex *Exec) newEpoch(st *State) {
	st.heap = map[string]*Term{}
	st.epoch = ex.vc.fresh("e")
	st.mix = nil
}

// ---- component names -------------------------------------------------------------------

func structKeyOf(t types.Type) string {
	t = types.Unalias(t)
	if p, ok := t.Underlying().(*types.Pointer); ok {
		t = types.Unalias(p.Elem())
	}
	return typeKey(t)
}

func (ex *Exec) fieldComp(structT types.Type, fieldIdx int) (string, Sort, types.Type) {
	st := structT.Underlying().(*types.Struct)
	f := st.Field(fieldIdx)
	name := "F." + typeKey(types.Unalias(structT)) + "." + sanitize(f.Name())
	ex.markRef(name, f.Type())
	return name, ArraySort(SInt, ex.vc.SortOf(f.Type())), f.Type()
}

func (ex *Exec) cellComp(t types.Type) (string, Sort) {
	ex.markRef("C."+typeKey(types.Unalias(t)), t)
	return "C." + typeKey(types.Unalias(t)), ArraySort(SInt, ex.vc.SortOf(t))
}

func (ex *Exec) sliceComp(elem types.Type) (string, Sort) {
	ex.markRef("SL."+typeKey(types.Unalias(elem)), elem)
	return "SL." + typeKey(types.Unalias(elem)), ArraySort(SInt, ArraySort(ex.vc.IntSort(), ex.vc.SortOf(elem)))
}

func (ex *Exec) mapComps(m *types.Map) (dom, val, ln string, ks, vs Sort) {
	k := typeKey(types.Unalias(m.Key())) + "." + typeKey(types.Unalias(m.Elem()))
	ks, vs = ex.vc.SortOf(m.Key()), ex.vc.SortOf(m.Elem())
	if ex.mapTypes == nil {
		ex.mapTypes = map[string]*types.Map{}
	}
	ex.mapTypes["MV."+k] = m
	ex.mapTypes["MD."+k] = m
	ex.markRef("MV."+k, m.Elem())
	return "MD." + k, "MV." + k, "ML." + k, ks, vs
}

func globalComp(g *ssa.Global) string {
	return "G." + sanitize(g.Pkg.Pkg.Path()) + "." + g.Name()
}

// ---- memory operations --------------------------------------------------------------------

func isStructType(t types.Type) bool {
	if isCPUSet(t) {
		return false
	}
	_, ok := types.Unalias(t).Underlying().(*types.Struct)
	return ok
}

func derefType(t types.Type) types.Type {
	return types.Unalias(t).Underlying().(*types.Pointer).Elem()
}

// addrOfRef converts a reference term of Go type *T into an Addr for non-struct T,
// or reports that it is a struct ref.
func (ex *Exec) cellAddr(ref *Term, elem types.Type) *Addr {
	c, s := ex.cellComp(elem)
	return &Addr{comp: c, compSort: s, idx: []*Term{ref}, typ: elem}
}

func (ex *Exec) loadAddr(st *State, a *Addr) *Term {
	base := ex.comp(st, a.comp, a.compSort)
	var v *Term
	switch len(a.idx) {
	case 0:
		v = base
	case 1:
		v = ex.vc.SelectThrough(base, a.idx[0])
	case 2:
		if a.sliceIdx != nil {
			v = ex.vc.SliceAt(ex.vc.SelectThrough(base, a.idx[0]), a.sliceOff, a.sliceIdx)
			if v.Op == "select" {
				v = ex.vc.SelectThrough(v.Args[0], v.Args[1])
			}
		} else {
			v = ex.vc.SelectThrough(ex.vc.SelectThrough(base, a.idx[0]), a.idx[1])
		}
	}
	for _, pe := range a.path {
		if pe.index != nil {
			v = Select(v, pe.index)
			continue
		}
		f := pe.structT.Field(pe.field)
		v = ex.vc.StructSel(pe.structSort, f.Name(), v, ex.vc.SortOf(f.Type()))
	}
	return v
}

func (ex *Exec) storeAddr(st *State, a *Addr, val *Term) {
	base := ex.comp(st, a.comp, a.compSort)
	// read the root value
	var root *Term
	switch len(a.idx) {
	case 0:
		root = base
	case 1:
		root = Select(base, a.idx[0])
	case 2:
		root = Select(Select(base, a.idx[0]), a.idx[1])
	}
	nv := ex.updatePath(root, a.path, val)
	switch len(a.idx) {
	case 0:
		ex.setComp(st, a.comp, nv)
	case 1:
		ex.setComp(st, a.comp, Store(base, a.idx[0], nv))
	case 2:
		oldArr := Select(base, a.idx[0])
		inner := Store(oldArr, a.idx[1], nv)
		ex.setComp(st, a.comp, Store(base, a.idx[0], inner))
		if a.sliceIdx != nil {
			if v, ok := a.sliceOff.IntVal(); !(ok && v.Sign() == 0) && len(a.path) == 0 {
				// consequences of the store in terms of the slice accessor (see VC.SliceAt)
				vc := ex.vc
				newArr := vc.Def("slarr", inner)
				vc.Assume(ex.curReach, Eq(vc.SliceAt(newArr, a.sliceOff, a.sliceIdx), nv))
				jq := Sym("j!q", a.sliceIdx.Sort)
				f := Forall([]*Term{jq}, Implies(Not(Eq(jq, a.sliceIdx)), Eq(vc.SliceAt(newArr, a.sliceOff, jq), vc.SliceAt(oldArr, a.sliceOff, jq))))
				f.Pats = [][]*Term{{vc.SliceAt(newArr, a.sliceOff, jq)}}
				vc.Assume(ex.curReach, f)
			}
		}
	}
}

func (ex *Exec) updatePath(root *Term, path []pathElem, val *Term) *Term {
	if len(path) == 0 {
		return val
	}
	pe := path[0]
	if pe.index != nil {
		return Store(root, pe.index, ex.updatePath(Select(root, pe.index), path[1:], val))
	}
	var fs []*Term
	for i := 0; i < pe.structT.NumFields(); i++ {
		f := pe.structT.Field(i)
		cur := ex.vc.StructSel(pe.structSort, f.Name(), root, ex.vc.SortOf(f.Type()))
		if i == pe.field {
			cur = ex.updatePath(cur, path[1:], val)
		}
		fs = append(fs, cur)
	}
	return ex.vc.StructMk(pe.structSort, fs)
}

// loadStructRef builds the struct value stored at ref (type T struct).
func (ex *Exec) loadStructRef(st *State, ref *Term, t types.Type) *Term {
	s := t.Underlying().(*types.Struct)
	if s.NumFields() == 0 {
		return Sym("unit", SUnit)
	}
	var fs []*Term
	for i := 0; i < s.NumFields(); i++ {
		c, cs, _ := ex.fieldComp(t, i)
		fs = append(fs, Select(ex.comp(st, c, cs), ref))
	}
	return ex.vc.StructMk(ex.vc.SortOf(t), fs)
}

func (ex *Exec) storeStructRef(st *State, ref *Term, t types.Type, val *Term) {
	s := t.Underlying().(*types.Struct)
	ss := ex.vc.SortOf(t)
	for i := 0; i < s.NumFields(); i++ {
		c, cs, ft := ex.fieldComp(t, i)
		var fv *Term
		if val.Op == "mk_"+string(ss) {
			fv = val.Args[i]
		} else {
			fv = ex.vc.StructSel(ss, s.Field(i).Name(), val, ex.vc.SortOf(ft))
		}
		ex.setComp(st, c, Store(ex.comp(st, c, cs), ref, fv))
	}
}

// load through a pointer value (Term ref or Addr)
func (ex *Exec) load(st *State, p Value, elem types.Type) Value {
	switch a := p.(type) {
	case *Addr:
		return ex.loadAddr(st, a)
	case *Term:
		if isStructType(elem) {
			return ex.loadStructRef(st, a, elem)
		}
		if arr, ok := types.Unalias(elem).Underlying().(*types.Array); ok {
			c, cs := ex.sliceComp(arr.Elem())
			return Select(ex.comp(st, c, cs), a)
		}
		return ex.loadAddr(st, ex.cellAddr(a, elem))
	}
	panic(unsupported(fmt.Sprintf("load through %T", p)))
}

// funcRefOf gives a function value (closure or function) a first-order identity so it can be stored in memory.
func (ex *Exec) funcRefOf(v Value) *Term {
	if ex.funcVals == nil {
		ex.funcVals = map[string]Value{}
		ex.funcRefs = map[Value]*Term{}
	}
	if fv, ok := v.(*FuncVal); ok {
		for k, old := range ex.funcVals {
			if o, ok := old.(*FuncVal); ok && o.fn == fv.fn {
				return Sym(k, SInt)
			}
		}
	}
	if t, ok := ex.funcRefs[v]; ok {
		return t
	}
	ex.vc.nfresh++
	name := fmt.Sprintf("funcval!%d", ex.vc.nfresh)
	ex.vc.decls = append(ex.vc.decls, fmt.Sprintf("(declare-const %s Int)", name), fmt.Sprintf("(assert (> %s 0))", name))
	t := Sym(name, SInt)
	ex.funcVals[name] = v
	ex.funcRefs[v] = t
	return t
}

// addrRefOf: a first-class reference standing for an interior address (used when &x.f is boxed into an interface).
func (ex *Exec) addrRefOf(a *Addr) *Term {
	if ex.addrVals == nil {
		ex.addrVals = map[string]*Addr{}
	}
	ex.vc.nfresh++
	name := fmt.Sprintf("addrval!%d", ex.vc.nfresh)
	ex.vc.decls = append(ex.vc.decls, fmt.Sprintf("(declare-const %s Int)", name), fmt.Sprintf("(assert (> %s 0))", name))
	ex.addrVals[name] = a
	return Sym(name, SInt)
}

func (ex *Exec) store(st *State, p Value, elem types.Type, v Value) {
	vt, ok := v.(*Term)
	if !ok {
		switch v.(type) {
		case *Closure, *FuncVal:
			vt = ex.funcRefOf(v)
		default:
			panic(unsupported(fmt.Sprintf("storing a non-first-order value (%T) of type %s into memory", v, elem)))
		}
	}
	switch a := p.(type) {
	case *Addr:
		ex.storeAddr(st, a, vt)
		return
	case *Term:
		if isStructType(elem) {
			ex.storeStructRef(st, a, elem, vt)
			return
		}
		if arr, ok := types.Unalias(elem).Underlying().(*types.Array); ok {
			c, cs := ex.sliceComp(arr.Elem())
			ex.setComp(st, c, Store(ex.comp(st, c, cs), a, vt))
			return
		}
		ex.storeAddr(st, ex.cellAddr(a, elem), vt)
		return
	}
	panic(unsupported(fmt.Sprintf("store through %T", p)))
}

var aliveSort = ArraySort(SInt, SBool)

func (ex *Exec) alive(st *State) *Term { return ex.comp(st, "alive", aliveSort) }

// freshRef allocates a new reference.
func (ex *Exec) freshRef(st *State, reach *Term, hint string) *Term {
	r := ex.vc.FreshConst("ref."+hint, SInt)
	al := ex.alive(st)
	ex.vc.Assume(reach, And(App(">", SBool, r, IntLit(0)), Not(Select(al, r))))
	ex.setComp(st, "alive", Store(al, r, TTrue))
	return r
}

// assumeAlive records the heap typing fact that a loaded reference is nil or allocated.
func (ex *Exec) assumeAlive(st *State, reach *Term, v *Term, t types.Type) {
	if _, isSpec := t.(*SpecArr); isSpec {
		return
	}
	switch types.Unalias(t).Underlying().(type) {
	case *types.Pointer, *types.Map, *types.Interface, *types.Signature, *types.Chan:
		if v.Sort == SInt {
			ex.vc.Assume(reach, Or(Eq(v, IntLit(0)), And(App(">", SBool, v, IntLit(0)), Select(ex.alive(st), v))))
		}
	case *types.Slice:
		if v.Sort == SSlc && ex.vc.quantDepth == 0 {
			p := ex.vc.SlicePtr(v)
			ex.vc.Assume(reach, Or(Eq(p, IntLit(0)), And(App(">", SBool, p, IntLit(0)), Select(ex.alive(st), p))))
			ex.vc.Assume(reach, ex.sliceWF(v))
		}
	case *types.Basic:
		if v.Sort == SInt && ex.vc.mode == ModeMath {
			if b := t.Underlying().(*types.Basic); b.Info()&types.IsInteger != 0 {
				ex.vc.Assume(reach, ex.vc.IntRange(v, t))
			}
		}
		if v.Sort == SBV64 {
			ex.vc.Assume(reach, ex.vc.IntRange(v, t))
		}
	}
	if isCPUSet(t) {
		// CPU ids are non-negative
		ex.vc.declare("cpusetwf", "(define-fun cpusetwf ((s (Set Int))) Bool (forall ((x Int)) (=> (set.member x s) (>= x 0))))")
		ex.vc.usesQ = true
		ex.vc.Assume(reach, App("cpusetwf", SBool, v))
	}
}

// sliceShape: the part of slice well-formedness that every slice value has by construction (no size bounds)
func (ex *Exec) sliceShape(v *Term) *Term {
	vc := ex.vc
	z := vc.IntConst(0)
	return And(vc.Cmp("<=", z, vc.SliceLen(v), types.Typ[types.Int]), vc.Cmp("<=", vc.SliceLen(v), vc.SliceCap(v), types.Typ[types.Int]),
		vc.Cmp("<=", z, vc.SliceOff(v), types.Typ[types.Int]),
		Implies(Eq(vc.SlicePtr(v), IntLit(0)), And(Eq(vc.SliceLen(v), z), Eq(vc.SliceCap(v), z))))
}

func (ex *Exec) sliceWF(v *Term) *Term {
	vc := ex.vc
	z := vc.IntConst(0)
	return And(vc.Cmp("<=", z, vc.SliceLen(v), types.Typ[types.Int]), vc.Cmp("<=", vc.SliceLen(v), vc.SliceCap(v), types.Typ[types.Int]),
		vc.Cmp("<=", z, vc.SliceOff(v), types.Typ[types.Int]),
		vc.Cmp("<=", vc.SliceOff(v), vc.IntBig(new(big.Int).Lsh(big.NewInt(1), 61)), types.Typ[types.Int]),
		vc.Cmp("<=", vc.SliceCap(v), vc.IntBig(new(big.Int).Lsh(big.NewInt(1), 61)), types.Typ[types.Int]),
		Implies(Eq(vc.SlicePtr(v), IntLit(0)), And(Eq(vc.SliceLen(v), z), Eq(vc.SliceCap(v), z))))
}

// ---- function execution -----------------------------------------------------------------------

func (ex *Exec) unsupportedAt(instr ssa.Instruction, msg string) {
	pos := ""
	if instr != nil {
		pos = ex.eng.fset.Position(instr.Pos()).String()
		if !instr.Pos().IsValid() && instr.Parent() != nil {
			pos = instr.Parent().String()
		}
	}
	panic(unsupported(fmt.Sprintf("%s at %s", msg, pos)))
}

func backEdges(fn *ssa.Function) map[[2]int]bool {
	be := map[[2]int]bool{}
	for _, b := range fn.Blocks {
		for _, s := range b.Succs {
			if s.Dominates(b) {
				be[[2]int{b.Index, s.Index}] = true
			}
		}
	}
	return be
}

// loopBlocks returns the natural loop body of header h (union over its back edges).
func loopBlocks(fn *ssa.Function, h *ssa.BasicBlock, be map[[2]int]bool) map[int]bool {
	body := map[int]bool{h.Index: true}
	var stack []*ssa.BasicBlock
	for _, p := range h.Preds {
		if be[[2]int{p.Index, h.Index}] {
			if !body[p.Index] {
				body[p.Index] = true
				stack = append(stack, p)
			}
		}
	}
	for len(stack) > 0 {
		b := stack[len(stack)-1]
		stack = stack[:len(stack)-1]
		for _, p := range b.Preds {
			if !body[p.Index] {
				body[p.Index] = true
				stack = append(stack, p)
			}
		}
	}
	return body
}

func topoOrder(fn *ssa.Function, be map[[2]int]bool) []*ssa.BasicBlock {
	visited := map[int]bool{}
	var post []*ssa.BasicBlock
	var dfs func(b *ssa.BasicBlock)
	dfs = func(b *ssa.BasicBlock) {
		visited[b.Index] = true
		for _, s := range b.Succs {
			if be[[2]int{b.Index, s.Index}] || visited[s.Index] {
				continue
			}
			dfs(s)
		}
		post = append(post, b)
	}
	dfs(fn.Blocks[0])
	// Recover block (if any) is not reachable by normal control flow; ignored.
	for i, j := 0, len(post)-1; i < j; i, j = i+1, j-1 {
		post[i], post[j] = post[j], post[i]
	}
	return post
}

type blockOut struct {
	st    *State
	reach *Term
	cond  *Term // condition of the terminating If (nil otherwise)
	done  bool
}

// loopHeaders returns loop header blocks ordered by index.
func loopHeaders(fn *ssa.Function) []*ssa.BasicBlock {
	be := backEdges(fn)
	seen := map[int]bool{}
	var hs []*ssa.BasicBlock
	for e := range be {
		if !seen[e[1]] {
			seen[e[1]] = true
			hs = append(hs, fn.Blocks[e[1]])
		}
	}
	sort.Slice(hs, func(i, j int) bool { return hs[i].Index < hs[j].Index })
	return hs
}

func (ex *Exec) runBody(fr *frame, st0 *State, reach0 *Term) []*exit {
	fn := fr.fn
	if len(fn.Blocks) == 0 {
		panic(unsupported("function without body: " + fn.String()))
	}
	be := backEdges(fn)
	order := topoOrder(fn, be)
	outs := make([]*blockOut, len(fn.Blocks))
	headers := loopHeaders(fn)
	hIndex := map[int]int{}
	for i, h := range headers {
		hIndex[h.Index] = i
	}
	var exits []*exit
	fc := ex.eng.cs.Funcs[funcKey(fn)]
	if fr.isTop && fr.contract != nil {
		// the contract being verified (for a `standalone` contract this is not the one call sites use)
		fc = fr.contract
	}
	type latchCheck struct {
		header *ssa.BasicBlock
		lc     *LoopContract
		entry  *State
		mods   *modSet
	}
	loopInfo := map[int]*latchCheck{}
	rangeUB := map[*ssa.Phi]ssa.Value{}

	for _, b := range order {
		var st *State
		var reach *Term
		type inEdge struct {
			pred  *ssa.BasicBlock
			reach *Term
			st    *State
		}
		var ins []inEdge
		if b.Index == 0 {
			st, reach = st0, reach0
		} else {
			for _, p := range b.Preds {
				if be[[2]int{p.Index, b.Index}] {
					continue
				}
				po := outs[p.Index]
				if po == nil || !po.done {
					continue
				}
				r := po.reach
				if po.cond != nil {
					if p.Succs[0] == b && p.Succs[1] == b {
						// both edges
					} else if p.Succs[0] == b {
						r = And(r, po.cond)
					} else {
						r = And(r, Not(po.cond))
					}
				}
				if IsFalse(r) {
					continue
				}
				ins = append(ins, inEdge{p, r, po.st})
			}
			if len(ins) == 0 {
				continue // unreachable
			}
			var rs []*Term
			for _, e := range ins {
				rs = append(rs, e.reach)
			}
			reach = ex.vc.Def(fmt.Sprintf("reach.%s.b%d", fn.Name(), b.Index), Or(rs...))
			// merge heap
			if len(ins) == 1 {
				st = ins[0].st.clone()
			} else {
				st = ex.mergeStates(ins[0].st, func(i int) (*Term, *State) { return ins[i].reach, ins[i].st }, len(ins))
			}
		}
		// phi nodes
		phiVal := func(phi *ssa.Phi, fromBack bool, pred *ssa.BasicBlock) Value {
			for i, p := range b.Preds {
				if p == pred {
					return ex.operand(fr, phi.Edges[i])
				}
			}
			panic("phi pred not found")
		}
		_, isHeader := hIndex[b.Index]
		if !isHeader {
			for _, instr := range b.Instrs {
				phi, ok := instr.(*ssa.Phi)
				if !ok {
					break
				}
				var acc Value
				for i := len(ins) - 1; i >= 0; i-- {
					v := phiVal(phi, false, ins[i].pred)
					if acc == nil {
						acc = v
					} else {
						acc = ex.iteValue(ins[i].reach, v, acc, phi)
					}
				}
				if t, ok := acc.(*Term); ok {
					acc = ex.vc.Def(fn.Name()+"."+phi.Name(), t)
				}
				fr.env[phi] = acc
			}
		} else {
			// ---- loop header: check invariant on entry, havoc, assume invariant ----
			k := hIndex[b.Index]
			var lc *LoopContract
			if fc != nil {
				lc = fc.Loops[k]
			}
			if lc != nil && lc.Anchor != "" {
				ex.checkAnchor(fn, b, lc)
			}
			body := loopBlocks(fn, b, be)
			// entry values for phis
			entryEnv := map[ssa.Value]Value{}
			var phis []*ssa.Phi
			for _, instr := range b.Instrs {
				phi, ok := instr.(*ssa.Phi)
				if !ok {
					break
				}
				phis = append(phis, phi)
				var acc Value
				for i := len(ins) - 1; i >= 0; i-- {
					v := phiVal(phi, false, ins[i].pred)
					if acc == nil {
						acc = v
					} else {
						acc = ex.iteValue(ins[i].reach, v, acc, phi)
					}
				}
				entryEnv[phi] = acc
			}
			entrySt := st.clone()
			lname := fmt.Sprintf("%s/loop%d", relName(fn), k)
			// inv-entry obligations
			if lc != nil {
				for i, inv := range lc.Invariants {
					saved := map[ssa.Value]Value{}
					for _, phi := range phis {
						saved[phi] = fr.env[phi]
						fr.env[phi] = entryEnv[phi]
					}
					g := ex.evalClauseAt(fr, inv, entrySt, reach, b, lc)
					for _, phi := range phis {
						if saved[phi] == nil {
							delete(fr.env, phi)
						} else {
							fr.env[phi] = saved[phi]
						}
					}
					ex.vc.Oblige(&Obligation{Name: fmt.Sprintf("%s/inv-entry#%d", lname, i), Kind: "inv-entry", Tags: inv.Tags, Guard: reach, Goal: g, Func: relName(fn), Pos: fmt.Sprintf("%s:%d", inv.File, inv.Line), Note: inv.Text})
				}
			}
			// built-in invariant of range-over-slice loops: the hidden index is >= -1
			for _, phi := range phis {
				if phi.Comment == "rangeindex" {
					if ub := rangeLenOf(b, phi); ub != nil {
						rangeUB[phi] = ub
					}
					if ev, ok := entryEnv[phi].(*Term); ok {
						ex.vc.Oblige(&Obligation{Name: fmt.Sprintf("%s/inv-auto-entry:%s", lname, phi.Name()), Kind: "inv-entry", Tags: ex.contractTags(), Guard: reach, Goal: ex.vc.Cmp(">=", ev, ex.vc.IntConst(-1), phi.Type()), Func: relName(fn), Note: "range index >= -1"})
					}
				}
			}
			// havoc
			mods := ex.loopMods(fr, fn, body, st)
			ex.havocMods(fr, st, reach, mods, entrySt, lc, b)
			for _, phi := range phis {
				fr.env[phi] = ex.freshValueOfType(st, reach, fn.Name()+"."+phi.Name()+"."+phi.Comment, phi.Type())
			}
			for _, phi := range phis {
				if phi.Comment == "rangeindex" {
					if ev, ok := fr.env[phi].(*Term); ok {
						ex.vc.Assume(reach, ex.vc.Cmp(">=", ev, ex.vc.IntConst(-1), phi.Type()))
						// the index only advances while index+1 < len: index < len whenever len >= 0 (len is loop invariant in SSA)
						if ub, ok := rangeUB[phi]; ok {
							if lt, ok := fr.env[ub].(*Term); ok {
								ex.vc.Assume(reach, Or(Eq(ev, ex.vc.IntConst(-1)), ex.vc.Cmp("<", ev, lt, phi.Type())))
							}
						}
					}
				}
			}
			// assume invariants
			if lc != nil {
				for _, inv := range lc.Invariants {
					g := ex.evalClauseAt(fr, inv, st, reach, b, lc)
					ex.vc.Assume(reach, g)
				}
			}
			loopInfo[b.Index] = &latchCheck{header: b, lc: lc, entry: entrySt, mods: mods}
		}

		// instructions
		cur := &blockOut{st: st, reach: reach}
		outs[b.Index] = cur
		terminated := false
		for ii, instr := range b.Instrs {
			if _, ok := instr.(*ssa.Phi); ok {
				continue
			}
			if fc != nil && len(fc.Asserts) > 0 {
				ex.checkAsserts(fr, fc, cur.st, cur.reach, b, ii, instr, false)
			}
			switch in := instr.(type) {
			case *ssa.If:
				c := ex.term(fr, in.Cond)
				cur.cond = c
				cur.done = true
				terminated = true
			case *ssa.Jump:
				cur.done = true
				terminated = true
			case *ssa.Return:
				var res []Value
				for _, r := range in.Results {
					res = append(res, ex.operand(fr, r))
				}
				exits = append(exits, &exit{reach: cur.reach, st: cur.st, results: res, pos: in.Pos()})
				terminated = true
			case *ssa.Panic:
				exits = append(exits, &exit{reach: cur.reach, st: cur.st, isPanic: true, pos: in.Pos(), what: "explicit panic"})
				terminated = true
			default:
				nreach := ex.step(fr, cur.st, cur.reach, instr, &exits)
				cur.reach = nreach
				if IsFalse(nreach) {
					terminated = true
				}
				if !terminated && fc != nil && len(fc.Asserts) > 0 && lastOfLine(ex.eng, b, ii) {
					// `assert … after "text"`: the state after the last instruction of that source line
					ex.checkAsserts(fr, fc, cur.st, cur.reach, b, ii+1, instr, true)
				}
			}
			if terminated {
				break
			}
		}
		// back edges out of this block: inv-step obligations
		if cur.done {
			for si, s := range b.Succs {
				if !be[[2]int{b.Index, s.Index}] {
					continue
				}
				li := loopInfo[s.Index]
				if li == nil {
					continue
				}
				r := cur.reach
				if cur.cond != nil {
					if si == 0 {
						r = And(r, cur.cond)
					} else {
						r = And(r, Not(cur.cond))
					}
				}
				if IsFalse(r) {
					continue
				}
				k := hIndex[s.Index]
				lname := fmt.Sprintf("%s/loop%d", relName(fn), k)
				// bind header phis to the values flowing along this back edge
				saved := map[ssa.Value]Value{}
				for _, instr := range s.Instrs {
					phi, ok := instr.(*ssa.Phi)
					if !ok {
						break
					}
					saved[phi] = fr.env[phi]
				}
				newv := map[ssa.Value]Value{}
				for _, instr := range s.Instrs {
					phi, ok := instr.(*ssa.Phi)
					if !ok {
						break
					}
					for i, p := range s.Preds {
						if p == b {
							newv[phi] = ex.operand(fr, phi.Edges[i])
						}
					}
				}
				for phi, v := range newv {
					fr.env[phi] = v
				}
				for phi, v := range newv {
					if p, ok := phi.(*ssa.Phi); ok && p.Comment == "rangeindex" {
						if ev, ok := v.(*Term); ok {
							ex.vc.Oblige(&Obligation{Name: fmt.Sprintf("%s/inv-auto-step:%s@b%d", lname, p.Name(), b.Index), Kind: "inv-step", Tags: ex.contractTags(), Guard: r, Goal: ex.vc.Cmp(">=", ev, ex.vc.IntConst(-1), p.Type()), Func: relName(fn), Note: "range index >= -1"})
						}
					}
				}
				if li.lc != nil {
					for i, inv := range li.lc.Invariants {
						g := ex.evalClauseAt(fr, inv, cur.st, r, s, li.lc)
						ex.vc.Oblige(&Obligation{Name: fmt.Sprintf("%s/inv-step#%d@b%d", lname, i, b.Index), Kind: "inv-step", Tags: inv.Tags, Guard: r, Goal: g, Func: relName(fn), Pos: fmt.Sprintf("%s:%d", inv.File, inv.Line), Note: inv.Text})
					}
					if li.lc.HasMod {
						ex.loopFrameObligations(fr, li.lc, li.mods, li.entry, cur.st, r, lname, s)
					}
				}
				for phi, v := range saved {
					fr.env[phi] = v
				}
			}
		}
	}
	return exits
}

func (ex *Exec) checkAnchor(fn *ssa.Function, b *ssa.BasicBlock, lc *LoopContract) {
	// the source line of the loop statement must contain the anchor text
	syn := fn.Syntax()
	if syn == nil {
		return
	}
	be := backEdges(fn)
	body := loopBlocks(fn, b, be)
	var poss []token.Pos
	for _, blk := range fn.Blocks {
		if !body[blk.Index] || blk == b {
			continue
		}
		for _, in := range blk.Instrs {
			if _, isDbg := in.(*ssa.DebugRef); isDbg {
				continue
			}
			if _, isPhi := in.(*ssa.Phi); isPhi {
				continue // phis carry the position of the variable's declaration
			}
			if in.Pos().IsValid() {
				poss = append(poss, in.Pos())
			}
		}
	}
	if len(poss) == 0 {
		return
	}
	var best ast.Node
	ast.Inspect(syn, func(n ast.Node) bool {
		switch n.(type) {
		case *ast.ForStmt, *ast.RangeStmt:
			for _, p := range poss {
				if p < n.Pos() || p > n.End() {
					return true
				}
			}
			if best == nil || (n.End()-n.Pos()) < (best.End()-best.Pos()) {
				best = n
			}
		}
		return true
	})
	if best == nil {
		// fall back: the innermost loop statement containing most instruction positions
		bestCount := 0
		ast.Inspect(syn, func(n ast.Node) bool {
			switch n.(type) {
			case *ast.ForStmt, *ast.RangeStmt:
				cnt := 0
				for _, p := range poss {
					if p >= n.Pos() && p <= n.End() {
						cnt++
					}
				}
				if cnt*10 >= len(poss)*9 && (best == nil || cnt > bestCount || (cnt == bestCount && (n.End()-n.Pos()) < (best.End()-best.Pos()))) {
					best, bestCount = n, cnt
				}
			}
			return true
		})
	}
	if best == nil {
		var ls []string
		for _, p := range poss {
			ls = append(ls, fmt.Sprint(ex.eng.fset.Position(p).Line))
		}
		panic(unsupported(fmt.Sprintf("loop contract %s#%d (%s:%d): no loop statement found for the SSA loop (instruction lines %v)", lc.Func, lc.Index, lc.File, lc.Line, ls)))
	}
	p := ex.eng.fset.Position(best.Pos())
	line := ex.eng.sourceLine(p.Filename, p.Line)
	if !strings.Contains(line, lc.Anchor) {
		panic(unsupported(fmt.Sprintf("loop contract %s#%d (%s:%d): anchor %q not found at %s:%d (%q)", lc.Func, lc.Index, lc.File, lc.Line, lc.Anchor, p.Filename, p.Line, strings.TrimSpace(line))))
	}
}

func (ex *Exec) mergeStates(first *State, get func(i int) (*Term, *State), n int) *State {
	res := &State{heap: map[string]*Term{}, epoch: first.epoch, mix: first.mix}
	keys := map[string]bool{}
	sameEpoch := true
	for i := 0; i < n; i++ {
		_, s := get(i)
		if s.epoch != first.epoch {
			sameEpoch = false
		}
		for k := range s.heap {
			keys[k] = true
		}
	}
	if !sameEpoch {
		// different havoc epochs on the branches: components not yet touched are resolved lazily (see comp)
		res.epoch = ex.vc.fresh("e")
		res.mix = nil
		for i := 0; i < n; i++ {
			r, s := get(i)
			res.mix = append(res.mix, epochPart{r, s.clone()})
		}
	}
	for _, k := range sortedKeys(keys) {
		sortK := ex.compSorts[k]
		var acc *Term
		for i := n - 1; i >= 0; i-- {
			r, s := get(i)
			v := ex.comp(s, k, sortK)
			if acc == nil {
				acc = v
			} else {
				acc = Ite(r, v, acc)
			}
		}
		if len(acc.Args) > 0 {
			acc = ex.vc.Def(k, acc)
		}
		res.heap[k] = acc
	}
	return res
}

func (ex *Exec) iteValue(c *Term, a, b Value, at ssa.Value) Value {
	at1, ok1 := a.(*Term)
	bt1, ok2 := b.(*Term)
	if ok1 && ok2 {
		return Ite(c, at1, bt1)
	}
	if a == b {
		return a
	}
	if ta, ok := a.(Tuple); ok {
		if tb, ok := b.(Tuple); ok && len(ta) == len(tb) {
			var out Tuple
			for i := range ta {
				out = append(out, ex.iteValue(c, ta[i], tb[i], at))
			}
			return out
		}
	}
	// nil-func vs closure etc.
	if fa, ok := a.(*FuncVal); ok {
		if fb, ok := b.(*FuncVal); ok && fa.fn == fb.fn {
			return a
		}
	}
	// two different function values (closures / functions, possibly one first-order reference already): merge
	// their first-class references; a call through the merged value goes by the contract of its function type
	asRef := func(v Value) *Term {
		switch x := v.(type) {
		case *Closure, *FuncVal:
			return ex.funcRefOf(v)
		case *Term:
			if x.Sort == SInt {
				return x
			}
		}
		return nil
	}
	if ra, rb := asRef(a), asRef(b); ra != nil && rb != nil {
		_, fa := a.(*Term)
		_, fb := b.(*Term)
		if !(fa && fb) {
			return Ite(c, ra, rb)
		}
	}
	where := ""
	if at != nil {
		where = fmt.Sprintf(" at %s in %s", at.Name(), at.Parent())
	}
	panic(unsupported(fmt.Sprintf("merging non-first-order values (%T, %T)%s", a, b, where)))
}

// freshValueOfType creates an unconstrained value of the Go type with typing assumptions.
func (ex *Exec) freshValueOfType(st *State, reach *Term, hint string, t types.Type) Value {
	if tup, ok := t.(*types.Tuple); ok {
		var out Tuple
		for i := 0; i < tup.Len(); i++ {
			out = append(out, ex.freshValueOfType(st, reach, fmt.Sprintf("%s.%d", hint, i), tup.At(i).Type()))
		}
		return out
	}
	v := ex.vc.FreshConst(hint, ex.vc.SortOf(t))
	ex.assumeAlive(st, reach, v, t)
	return v
}

// ---- operands -------------------------------------------------------------------------------------

func (ex *Exec) operand(fr *frame, v ssa.Value) Value {
	switch x := v.(type) {
	case *ssa.Const:
		return ex.constVal(x)
	case *ssa.Global:
		t := derefType(x.Type())
		return &Addr{comp: globalComp(x), compSort: ex.vc.SortOf(t), typ: t}
	case *ssa.Function:
		return &FuncVal{fn: x}
	case *ssa.FreeVar:
		for i, fv := range fr.fn.FreeVars {
			if fv == x {
				if i < len(fr.free) {
					return fr.free[i]
				}
			}
		}
		panic(unsupported("unbound free variable " + x.Name() + " in " + fr.fn.String()))
	case *ssa.Builtin:
		return x
	}
	if r, ok := fr.env[v]; ok {
		return r
	}
	panic(unsupported(fmt.Sprintf("value %s (%T) of %s has no symbolic value (executed out of order?)", v.Name(), v, fr.fn)))
}

func (ex *Exec) term(fr *frame, v ssa.Value) *Term {
	o := ex.operand(fr, v)
	t, ok := o.(*Term)
	if !ok {
		if _, isF := o.(*FuncVal); isF {
			return ex.funcRefOf(o)
		}
		if _, isC := o.(*Closure); isC {
			return ex.funcRefOf(o)
		}
		panic(unsupported(fmt.Sprintf("operand %s of type %s is %T, not a first-order term (in %s)", v.Name(), v.Type(), o, fr.fn)))
	}
	return t
}

func (ex *Exec) constVal(c *ssa.Const) Value {
	t := c.Type()
	if c.Value == nil {
		if _, ok := types.Unalias(t).Underlying().(*types.Signature); ok {
			return IntLit(0)
		}
		return ex.vc.Zero(t)
	}
	switch c.Value.Kind() {
	case constant.Bool:
		if constant.BoolVal(c.Value) {
			return TTrue
		}
		return TFalse
	case constant.String:
		return ex.vc.StrLit(constant.StringVal(c.Value))
	case constant.Int:
		bi, _ := new(big.Int).SetString(c.Value.ExactString(), 10)
		if b, ok := t.Underlying().(*types.Basic); ok && b.Info()&types.IsFloat != 0 {
			return RealLit(new(big.Rat).SetInt(bi))
		}
		return ex.vc.IntBig(bi)
	case constant.Float:
		if b, ok := t.Underlying().(*types.Basic); ok && b.Info()&types.IsInteger != 0 {
			bi, _ := new(big.Int).SetString(constant.ToInt(c.Value).ExactString(), 10)
			return ex.vc.IntBig(bi)
		}
		r, ok := new(big.Rat).SetString(c.Value.ExactString())
		if !ok {
			panic(unsupported("float constant " + c.Value.ExactString()))
		}
		return RealLit(r)
	}
	panic(unsupported("constant kind " + c.Value.Kind().String()))
}

func relName(fn *ssa.Function) string {
	if fn == nil {
		return "<lemma>"
	}
	if fn.Pkg != nil {
		return fn.RelString(fn.Pkg.Pkg)
	}
	if fn.Parent() != nil || fn.Signature.Recv() != nil {
		return fn.RelString(nil)
	}
	return fn.String()
}

func funcKey(fn *ssa.Function) string {
	// closures: parent's package
	p := fn
	for p.Parent() != nil {
		p = p.Parent()
	}
	if p.Pkg != nil {
		return p.Pkg.Pkg.Path() + "." + fn.RelString(p.Pkg.Pkg)
	}
	// methods of instantiated or external types without package (wrappers): use String()
	return fn.String()
}

// checkAsserts: program-point assertions anchored at a source line (the first instruction of the line in a block).
func (ex *Exec) checkAsserts(fr *frame, fc *FuncContract, st *State, reach *Term, b *ssa.BasicBlock, idx int, instr ssa.Instruction, after bool) {
	if _, isDbg := instr.(*ssa.DebugRef); isDbg || !instr.Pos().IsValid() {
		return
	}
	p := ex.eng.fset.Position(instr.Pos())
	line := ex.eng.sourceLine(p.Filename, p.Line)
	for ai, a := range fc.Asserts {
		if a.After != after || !strings.Contains(line, a.Anchor) {
			continue
		}
		key := fmt.Sprintf("%d/%d/%d/%v", ai, p.Line, b.Index, after)
		if fr.assertDone == nil {
			fr.assertDone = map[string]bool{}
		}
		if fr.assertDone[key] {
			continue
		}
		fr.assertDone[key] = true
		old := fr.old
		if old == nil {
			old = st
		}
		se := ex.specEnvFor(fr, st, old, reach, b)
		se.beforeIdx = idx
		g := se.evalBool(a.Clause.Expr)
		ex.assertN++
		ex.vc.Oblige(&Obligation{Name: fmt.Sprintf("%s/assert#%d@b%d", relName(fr.fn), ai, b.Index), Kind: "assert", Tags: a.Clause.Tags, Guard: reach, Goal: g, Func: relName(ex.top), Pos: fmt.Sprintf("%s:%d", a.Clause.File, a.Clause.Line), Note: a.Clause.Text})
		ex.vc.Assume(reach, g)
		fr.assertHit = true
		ex.assertsHit[fmt.Sprintf("%s#%d", funcKey(fr.fn), ai)] = true
	}
}

// rangeLenOf: for the header of a lowered `for i := range slice` loop (phi; next = phi+1; if next < len),
// the SSA value of len, provided it is defined outside the loop (so it is loop invariant). The fact
// "phi == -1 || phi < len" then holds at the header: phi is only ever assigned a value of next that
// passed the test next < len.
func rangeLenOf(header *ssa.BasicBlock, phi *ssa.Phi) ssa.Value {
	var next ssa.Value
	for _, in := range header.Instrs {
		if bo, ok := in.(*ssa.BinOp); ok && bo.Op == token.ADD && bo.X == phi {
			if c, ok := bo.Y.(*ssa.Const); ok && c.Value != nil && c.Value.ExactString() == "1" {
				next = bo
			}
		}
	}
	if next == nil {
		return nil
	}
	// every back-edge operand of the phi must be `next`
	for i, e := range phi.Edges {
		if header.Preds[i].Index >= header.Index || header.Dominates(header.Preds[i]) {
			if e != next {
				if c, ok := e.(*ssa.Const); ok && c.Value != nil && c.Value.ExactString() == "-1" {
					continue
				}
				return nil
			}
		}
	}
	for _, in := range header.Instrs {
		if bo, ok := in.(*ssa.BinOp); ok && bo.Op == token.LSS && bo.X == next {
			if iv, ok := bo.Y.(ssa.Instruction); ok && iv.Block() != nil && !header.Dominates(iv.Block()) {
				return bo.Y
			} else if !ok {
				return bo.Y
			} else if iv.Block() != header && iv.Block().Dominates(header) {
				return bo.Y
			}
		}
	}
	return nil
}

// lastOfLine: instruction ii of block b is the last position-bearing instruction of its source line within b.
func lastOfLine(eng *Engine, b *ssa.BasicBlock, ii int) bool {
	in := b.Instrs[ii]
	if _, isDbg := in.(*ssa.DebugRef); isDbg || !in.Pos().IsValid() {
		return false
	}
	line := eng.fset.Position(in.Pos()).Line
	for j := ii + 1; j < len(b.Instrs); j++ {
		n := b.Instrs[j]
		if _, isDbg := n.(*ssa.DebugRef); isDbg || !n.Pos().IsValid() {
			continue
		}
		return eng.fset.Position(n.Pos()).Line != line
	}
	return true
}
