package balloons

import (
	"testing"

	corev1 "k8s.io/api/core/v1"

	"github.com/containers/nri-plugins/pkg/resmgr/cache"
	libmem "github.com/containers/nri-plugins/pkg/resmgr/lib/memory"
	"github.com/containers/nri-plugins/pkg/utils/cpuset"
	idset "github.com/intel/goresctrl/pkg/utils"
)

type verifCtr struct{ cache.Container }

func (c *verifCtr) GetID() string                                          { return "ctrA" }
func (c *verifCtr) PrettyName() string                                     { return "ns/pod/ctrA" }
func (c *verifCtr) GetQOSClass() corev1.PodQOSClass                        { return corev1.PodQOSBurstable }
func (c *verifCtr) GetResourceUpdates() (corev1.ResourceRequirements, bool) { return corev1.ResourceRequirements{}, false }
func (c *verifCtr) GetResourceRequirements() corev1.ResourceRequirements   { return corev1.ResourceRequirements{} }

// C04 (balloons): the zone allocMem hands back for pinning must be the zone the allocator holds for the container.
// Two DRAM nodes; the container's balloon first sits next to node 0, later (after a resize) next to node 1.
func TestVerifAllocMemFallbackDisagreesWithAllocator(t *testing.T) {
	n0, _ := libmem.NewNode(0, libmem.TypeDRAM, 1<<30, true, cpuset.New(0, 1), []int{10, 21})
	n1, _ := libmem.NewNode(1, libmem.TypeDRAM, 1<<30, true, cpuset.New(2, 3), []int{21, 10})
	a, err := libmem.NewAllocator(libmem.WithNodes([]*libmem.Node{n0, n1}))
	if err != nil {
		t.Fatal(err)
	}
	p := &balloons{memAllocator: a}
	c := &verifCtr{}
	z0 := p.allocMem(c, idset.NewIDSet(0), libmem.TypeMaskDRAM, false)
	held, _ := a.AssignedZone("ctrA")
	t.Logf("first pinning: told %s, allocator holds %s", z0, held)
	z1 := p.allocMem(c, idset.NewIDSet(1), libmem.TypeMaskDRAM, false)
	held, ok := a.AssignedZone("ctrA")
	t.Logf("after the balloon moved next to node 1: told %s, allocator holds %s (held: %v)", z1, held, ok)
	if ok && z1 != held {
		t.Errorf("DEFECT: container is pinned to memory %s while the allocator assigns (and accounts) it to %s", z1, held)
	}
}
