package topologyaware

// C05: can the REAL topology-aware policy change another container's
// resources (cache setter called => container marked pending) and only
// THEN return an error from a policy entry point?
//
// The NRI handlers in pkg/resmgr/nri.go return immediately on a policy
// error without draining pending updates, so every setter call recorded
// here on a container other than the one being handled would stay
// undelivered to the runtime.

import (
	"archive/tar"
	"compress/bzip2"
	"fmt"
	"io"
	"os"
	"path"
	"strings"
	"sync"
	"testing"

	nri "github.com/containerd/nri/pkg/api"
	cfgapi "github.com/containers/nri-plugins/pkg/apis/config/v1alpha1/resmgr/policy/topologyaware"
	"github.com/containers/nri-plugins/pkg/resmgr/cache"
	policyapi "github.com/containers/nri-plugins/pkg/resmgr/policy"
	system "github.com/containers/nri-plugins/pkg/sysfs"
	v1 "k8s.io/api/core/v1"
	"k8s.io/apimachinery/pkg/api/resource"
)

// c05Container is a mockContainer which remembers what the policy set on it,
// the way the real cache container does (value + pending mark).
type c05Container struct {
	mockContainer
	cpus, mems string
	shares     int64
	pending    map[string]bool
	updates    *v1.ResourceRequirements // what SetResourceUpdates() stored
	journal    *[]string                // shared, ordered log of all setter calls
}

func (c *c05Container) mark(what, from, to string) {
	if c.pending == nil {
		c.pending = map[string]bool{}
	}
	c.pending[what] = true
	*c.journal = append(*c.journal, fmt.Sprintf("%s.%s: %q -> %q", c.name, what, from, to))
}
func (c *c05Container) SetCpusetCpus(v string) {
	c.mark("cpuset.cpus", c.cpus, v)
	c.cpus = v
}
func (c *c05Container) SetCpusetMems(v string) {
	c.mark("cpuset.mems", c.mems, v)
	c.mems = v
}
func (c *c05Container) SetCPUShares(v int64) {
	c.mark("cpu.shares", fmt.Sprint(c.shares), fmt.Sprint(v))
	c.shares = v
}
func (c *c05Container) GetCpusetCpus() string { return c.cpus }
func (c *c05Container) GetCpusetMems() string { return c.mems }
func (c *c05Container) GetCPUShares() int64   { return c.shares }
func (c *c05Container) GetPending() []string {
	s := []string{}
	for k := range c.pending {
		s = append(s, k)
	}
	return s
}
func (c *c05Container) HasPending(what string) bool { return c.pending[what] }
func (c *c05Container) ClearPending(what string)    { delete(c.pending, what) }
func (c *c05Container) clearAllPending()            { c.pending = map[string]bool{} }
func (c *c05Container) SetResourceUpdates(*nri.LinuxResources) bool {
	return c.updates != nil
}
func (c *c05Container) GetResourceUpdates() (v1.ResourceRequirements, bool) {
	if c.updates == nil {
		return v1.ResourceRequirements{}, false
	}
	return *c.updates, true
}

var _ cache.Container = &c05Container{}

func c05Reqs(cpu, mem string) v1.ResourceRequirements {
	rl := v1.ResourceList{}
	if cpu != "" {
		rl[v1.ResourceCPU] = resource.MustParse(cpu)
	}
	if mem != "" {
		rl[v1.ResourceMemory] = resource.MustParse(mem)
	}
	return v1.ResourceRequirements{Requests: rl, Limits: rl.DeepCopy()}
}

func c05NewContainer(journal *[]string, id, name string, qos v1.PodQOSClass, cpu, mem string) *c05Container {
	return &c05Container{
		mockContainer: mockContainer{
			name:                                  name,
			namespace:                             "default",
			returnValueForGetID:                   id,
			returnValueForQOSClass:                qos,
			returnValueForGetResourceRequirements: c05Reqs(cpu, mem),
			pod:                                   &mockPod{name: "pod-" + name, returnValueFotGetQOSClass: qos},
		},
		journal: journal,
	}
}

// c05Sysfs extracts (once per test binary) only the requested fixture from
// testdata/sysfs.tar.bz2; extracting all three fixtures takes ~30 s in a sandbox.
var (
	c05SysfsOnce sync.Once
	c05SysfsDir  string
	c05SysfsErr  error
)

func c05Sysfs(t *testing.T, fixture string) string {
	c05SysfsOnce.Do(func() {
		c05SysfsDir, c05SysfsErr = os.MkdirTemp("", "c05-sysfs-")
		if c05SysfsErr != nil {
			return
		}
		f, err := os.Open(path.Join("testdata", "sysfs.tar.bz2"))
		if err != nil {
			c05SysfsErr = err
			return
		}
		defer f.Close()
		tr := tar.NewReader(bzip2.NewReader(f))
		prefix := path.Join("sysfs", fixture) + "/"
		for {
			h, err := tr.Next()
			if err == io.EOF {
				return
			}
			if err != nil {
				c05SysfsErr = err
				return
			}
			name := path.Clean(h.Name)
			if !strings.HasPrefix(name+"/", prefix) {
				continue
			}
			dst := path.Join(c05SysfsDir, name)
			switch h.Typeflag {
			case tar.TypeDir:
				err = os.MkdirAll(dst, 0755)
			case tar.TypeReg:
				if err = os.MkdirAll(path.Dir(dst), 0755); err == nil {
					var out *os.File
					if out, err = os.Create(dst); err == nil {
						_, err = io.Copy(out, tr)
						out.Close()
					}
				}
			case tar.TypeSymlink:
				if err = os.MkdirAll(path.Dir(dst), 0755); err == nil {
					err = os.Symlink(h.Linkname, dst)
				}
			}
			if err != nil {
				c05SysfsErr = err
				return
			}
		}
	})
	if c05SysfsErr != nil {
		t.Fatalf("extracting sysfs fixture: %v", c05SysfsErr)
	}
	return path.Join(c05SysfsDir, "sysfs", fixture, "sys")
}

func TestMain(m *testing.M) {
	rc := m.Run()
	if c05SysfsDir != "" {
		os.RemoveAll(c05SysfsDir)
	}
	os.Exit(rc)
}

func c05SetupPolicy(t *testing.T, fixture string, cch cache.Cache) *policy {
	sys, err := system.DiscoverSystemAt(c05Sysfs(t, fixture))
	if err != nil {
		t.Fatal(err)
	}
	p := New().(*policy)
	if err := p.Setup(&policyapi.BackendOptions{
		Cache:  cch,
		System: sys,
		Config: &cfgapi.Config{
			// the shipped (kubebuilder) defaults
			PinCPU:            true,
			PinMemory:         true,
			ReservedResources: cfgapi.Constraints{cfgapi.CPU: "750m"},
		},
	}); err != nil {
		t.Fatalf("setup: %v", err)
	}
	return p
}

// TestC05TopologyAwareUpdateResourcesErrorAfterChangingOthers:
//
//	desktop fixture (1 socket, 20 CPUs, 1 NUMA node), 750m reserved => cpu0 reserved, 1-19 sharable.
//	A: Guaranteed, 2 CPUs  -> gets 2 exclusive CPUs sliced off the pool
//	B: Burstable/BestEffort -> shared CPUs of the same pool (pool minus A's CPUs)
//	then A is resized (in-place pod resize => NRI UpdateContainer) to something
//	that does not fit => UpdateResources(A) fails, but only after
//	releasePool(A) + updateSharedAllocations() rewrote B's cpuset.
func TestC05TopologyAwareUpdateResourcesErrorAfterChangingOthers(t *testing.T) {
	for _, tc := range []struct {
		name   string
		bQos   v1.PodQOSClass
		bCPU   string
		newCPU string // A's updated CPU request
		newMem string // A's updated memory request/limit
	}{
		{name: "A resized to more CPUs than the machine has", bQos: v1.PodQOSBurstable, bCPU: "500m", newCPU: "20", newMem: "100M"},
		{name: "A resized to all allocatable CPUs (kubelet would admit: only a BestEffort neighbour)", bQos: v1.PodQOSBestEffort, bCPU: "", newCPU: "19", newMem: "100M"},
		{name: "A resized to more memory than the machine has", bQos: v1.PodQOSBurstable, bCPU: "500m", newCPU: "2", newMem: "1000G"},
	} {
		t.Run(tc.name, func(t *testing.T) {
			p := c05SetupPolicy(t, "desktop", &mockCache{returnValue2ForLookupContainer: true})
			t.Logf("system: %d CPUs, root pool sharable CPUs %s, reserved %s",
				p.sys.CPUCount(), p.root.FreeSupply().SharableCPUs(), p.root.FreeSupply().ReservedCPUs())

			journal := []string{}
			A := c05NewContainer(&journal, "id-A", "A", v1.PodQOSGuaranteed, "2", "100M")
			B := c05NewContainer(&journal, "id-B", "B", tc.bQos, tc.bCPU, "")

			if err := p.AllocateResources(A); err != nil {
				t.Fatalf("AllocateResources(A): %v", err)
			}
			if err := p.AllocateResources(B); err != nil {
				t.Fatalf("AllocateResources(B): %v", err)
			}
			gA, gB := p.allocations.grants["id-A"], p.allocations.grants["id-B"]
			t.Logf("initial: A grant %s", gA)
			t.Logf("initial: B grant %s", gB)
			t.Logf("initial: A cpuset.cpus=%q  B cpuset.cpus=%q", A.cpus, B.cpus)
			if gA.ExclusiveCPUs().IsEmpty() {
				t.Fatalf("test setup: A did not get exclusive CPUs")
			}

			// Everything so far was delivered by the successful CreateContainer replies.
			A.clearAllPending()
			B.clearAllPending()
			journal = journal[:0]
			bCpusBefore, bMemsBefore, bSharesBefore := B.cpus, B.mems, B.shares

			// NRI UpdateContainer(A, <resized resources>): nri.go stores the update
			// in the cache container and calls policy.UpdateResources(A).
			upd := c05Reqs(tc.newCPU, tc.newMem)
			A.updates = &upd

			err := p.UpdateResources(A)

			t.Logf("UpdateResources(A: cpu 2 -> %s, mem 100M -> %s) returned: %v", tc.newCPU, tc.newMem, err)
			for _, j := range journal {
				t.Logf("  setter call during UpdateResources: %s", j)
			}
			t.Logf("after: B cpuset.cpus=%q pending=%v; A cpuset.cpus=%q, policy still has a grant for A: %v",
				B.cpus, B.GetPending(), A.cpus, p.allocations.grants["id-A"] != nil)

			if err == nil {
				t.Skipf("UpdateResources succeeded; error-path scenario not reached")
			}
			if B.cpus != bCpusBefore {
				t.Errorf("DEFECT: UpdateResources(A) returned error %q AFTER having changed container B's cpuset.cpus from %q to %q (B pending: %v)",
					err, bCpusBefore, B.cpus, B.GetPending())
			}
			if B.mems != bMemsBefore {
				t.Errorf("DEFECT: UpdateResources(A) returned error %q AFTER having changed container B's cpuset.mems from %q to %q",
					err, bMemsBefore, B.mems)
			}
			if B.shares != bSharesBefore {
				t.Errorf("DEFECT: UpdateResources(A) returned error %q AFTER having changed container B's cpu.shares from %d to %d",
					err, bSharesBefore, B.shares)
			}
			if len(B.pending) > 0 && B.cpus == bCpusBefore && B.mems == bMemsBefore && B.shares == bSharesBefore {
				t.Logf("note: B was marked pending %v (same values re-set) although UpdateResources(A) failed", B.GetPending())
			}
		})
	}
}

// Same scenario, but with the REAL resmgr cache (pkg/resmgr/cache): real
// containers, real SetResourceUpdates(), real pending marks.  What is left in
// cache.GetPendingContainers() after the failing UpdateResources() is exactly
// what nri.go's UpdateContainer leaves undelivered, because it returns the
// policy error without calling getPendingUpdates().
func TestC05TopologyAwareRealCacheUpdateResourcesErrorLeavesOthersPending(t *testing.T) {
	cch, err := cache.NewCache(cache.Options{CacheDir: t.TempDir()})
	if err != nil {
		t.Fatal(err)
	}
	p := c05SetupPolicy(t, "desktop", cch)

	mk := func(id, cgroupParent string, shares uint64) cache.Container {
		cch.InsertPod(&nri.PodSandbox{Id: "pod-" + id, Name: "pod-" + id, Namespace: "default", Uid: "uid-" + id,
			Linux: &nri.LinuxPodSandbox{CgroupParent: cgroupParent}}, nil)
		c, err := cch.InsertContainer(&nri.Container{Id: id, PodSandboxId: "pod-" + id, Name: id,
			Linux: &nri.LinuxContainer{Resources: &nri.LinuxResources{
				Cpu:    &nri.LinuxCPU{Shares: nri.UInt64(shares)},
				Memory: &nri.LinuxMemory{Limit: nri.Int64(100 * 1000 * 1000)},
			}}}, cache.WithContainerState(cache.ContainerStateRunning))
		if err != nil {
			t.Fatal(err)
		}
		return c
	}
	drain := func() { // what getPendingUpdates() does in a successful reply
		for _, c := range cch.GetPendingContainers() {
			c.GetPendingUpdate()
			for _, ctl := range c.GetPending() {
				c.ClearPending(ctl)
			}
		}
	}

	A := mk("ctrA", "/kubepods/pod-ctrA", 2048)          // Guaranteed, 2 CPUs
	B := mk("ctrB", "/kubepods/burstable/pod-ctrB", 512) // Burstable, 500m
	t.Logf("A: qos %s, requirements %v", A.GetQOSClass(), A.GetResourceRequirements().Requests)
	t.Logf("B: qos %s, requirements %v", B.GetQOSClass(), B.GetResourceRequirements().Requests)

	if err := p.AllocateResources(A); err != nil {
		t.Fatalf("AllocateResources(A): %v", err)
	}
	if err := p.AllocateResources(B); err != nil {
		t.Fatalf("AllocateResources(B): %v", err)
	}
	drain()
	t.Logf("initial: A cpuset.cpus=%q  B cpuset.cpus=%q", A.GetCpusetCpus(), B.GetCpusetCpus())
	aBefore, bBefore := A.GetCpusetCpus(), B.GetCpusetCpus()
	if len(cch.GetPendingContainers()) != 0 {
		t.Fatalf("test setup: cache not drained")
	}

	// NRI UpdateContainer(A, cpu.shares for 20 CPUs), as in nri.go:
	ncpu := p.sys.CPUCount()
	if !A.SetResourceUpdates(&nri.LinuxResources{Cpu: &nri.LinuxCPU{Shares: nri.UInt64(uint64(ncpu) * 1024)}}) {
		t.Fatalf("test setup: SetResourceUpdates reported no real change")
	}
	upd, _ := A.GetResourceUpdates()
	t.Logf("UpdateContainer(A): requests %v -> %v", A.GetResourceRequirements().Requests, upd.Requests)

	err = p.UpdateResources(A)
	t.Logf("UpdateResources(A) returned: %v", err)
	if err == nil {
		t.Skipf("UpdateResources unexpectedly succeeded; scenario not reached")
	}
	_, aHasGrant := p.allocations.grants[A.GetID()]
	t.Logf("after: A cpuset.cpus=%q (policy still has a grant for A: %v), B cpuset.cpus=%q", A.GetCpusetCpus(), aHasGrant, B.GetCpusetCpus())
	_ = aBefore
	for _, c := range cch.GetPendingContainers() {
		if c.GetID() == A.GetID() {
			continue
		}
		t.Errorf("DEFECT: UpdateResources(%s) returned error %q AFTER having changed container %s's cpuset.cpus from %q to %q; it is left pending %v in the cache (nri.go returns the error without draining)",
			A.GetID(), err, c.GetID(), bBefore, c.GetCpusetCpus(), c.GetPending())
	}
}
