package libmem

import (
	"testing"

	"github.com/containers/nri-plugins/pkg/utils/cpuset"
)

// Two DRAM nodes. A container assigned to node 0 is re-allocated with affinity node 1 (what the balloons policy does
// when a balloon's CPUs move next to another node).
func TestVerifReallocToOtherNodeOnTwoNodeMachine(t *testing.T) {
	n0, err := NewNode(0, TypeDRAM, 1<<30, true, cpuset.New(0, 1), []int{10, 21})
	if err != nil {
		t.Fatal(err)
	}
	n1, err := NewNode(1, TypeDRAM, 1<<30, true, cpuset.New(2, 3), []int{21, 10})
	if err != nil {
		t.Fatal(err)
	}
	a, err := NewAllocator(WithNodes([]*Node{n0, n1}))
	if err != nil {
		t.Fatal(err)
	}
	zone, _, err := a.Allocate(ContainerWithTypes("A", "A", "burstable", 1000, NewNodeMask(0), TypeMaskDRAM))
	if err != nil {
		t.Fatal(err)
	}
	t.Logf("A allocated to %s", zone)
	z2, upd, err := a.Realloc("A", NewNodeMask(1), TypeMaskDRAM)
	t.Logf("Realloc(A, nodes{1}, DRAM) = zone %s, updates %v, err %v", z2, upd, err)
	cur, ok := a.AssignedZone("A")
	t.Logf("allocator now assigns A to %s (held: %v)", cur, ok)
	if err != nil {
		t.Errorf("Realloc to widen {0} by node {1} fails on a two-node machine although both nodes have room: %v; a caller falling back to the requested nodes {1} pins A to %s while the allocator holds %s", err, NewNodeMask(1), cur)
	}
}
