package balloons

// C05: can the REAL balloons policy change another container's resources
// (cache setter called => container marked pending in the cache) and only
// THEN return an error from AllocateResources()?
//
// The NRI handlers in pkg/resmgr/nri.go (CreateContainer here) return the
// policy error immediately without draining pending updates, so whatever is
// left in cache.GetPendingContainers() after the failing call is never
// delivered to the runtime with that reply.
//
// This test uses the real resmgr cache and a real sysfs fixture (the
// `desktop` one of the topology-aware policy's testdata).

import (
	"archive/tar"
	"compress/bzip2"
	"io"
	"os"
	"path"
	"strings"
	"testing"

	nri "github.com/containerd/nri/pkg/api"
	cfgapi "github.com/containers/nri-plugins/pkg/apis/config/v1alpha1/resmgr/policy/balloons"
	"github.com/containers/nri-plugins/pkg/resmgr/cache"
	policyapi "github.com/containers/nri-plugins/pkg/resmgr/policy"
	system "github.com/containers/nri-plugins/pkg/sysfs"
)

// c05ExtractFixture extracts only sysfs/<fixture>/ of the topology-aware testdata.
func c05ExtractFixture(t *testing.T, fixture string) string {
	dir := t.TempDir()
	f, err := os.Open(path.Join("..", "..", "topology-aware", "policy", "testdata", "sysfs.tar.bz2"))
	if err != nil {
		t.Fatal(err)
	}
	defer f.Close()
	tr := tar.NewReader(bzip2.NewReader(f))
	prefix := path.Join("sysfs", fixture) + "/"
	for {
		h, err := tr.Next()
		if err == io.EOF {
			break
		}
		if err != nil {
			t.Fatal(err)
		}
		name := path.Clean(h.Name)
		if !strings.HasPrefix(name+"/", prefix) {
			continue
		}
		dst := path.Join(dir, name)
		switch h.Typeflag {
		case tar.TypeDir:
			err = os.MkdirAll(dst, 0755)
		case tar.TypeReg:
			if err = os.MkdirAll(path.Dir(dst), 0755); err == nil {
				var out *os.File
				if out, err = os.Create(dst); err == nil {
					_, err = io.Copy(out, tr)
					out.Close()
				}
			}
		case tar.TypeSymlink:
			if err = os.MkdirAll(path.Dir(dst), 0755); err == nil {
				err = os.Symlink(h.Linkname, dst)
			}
		}
		if err != nil {
			t.Fatal(err)
		}
	}
	return path.Join(dir, "sysfs", fixture) // sysroot: contains sys/
}

type c05Harness struct {
	t   *testing.T
	cch cache.Cache
	p   *balloons
}

func c05NewHarness(t *testing.T, cfg *cfgapi.Config) *c05Harness {
	sysroot := c05ExtractFixture(t, "desktop")
	// balloons' NewCpuTreeFromSystem() discovers from the global sysfs root
	system.SetSysRoot(sysroot)
	t.Cleanup(func() { system.SetSysRoot("") })
	sys, err := system.DiscoverSystemAt(path.Join(sysroot, "sys"))
	if err != nil {
		t.Fatal(err)
	}
	cch, err := cache.NewCache(cache.Options{CacheDir: t.TempDir()})
	if err != nil {
		t.Fatal(err)
	}
	p := New().(*balloons)
	if err := p.Setup(&policyapi.BackendOptions{Cache: cch, System: sys, Config: cfg}); err != nil {
		t.Fatalf("balloons setup: %v", err)
	}
	return &c05Harness{t: t, cch: cch, p: p}
}

// mk inserts a Guaranteed pod with one container requesting `cpus` full CPUs.
func (h *c05Harness) mk(id, namespace string, cpus uint64) cache.Container {
	h.cch.InsertPod(&nri.PodSandbox{Id: "pod-" + id, Name: "pod-" + id, Namespace: namespace, Uid: "uid-" + id,
		Linux: &nri.LinuxPodSandbox{CgroupParent: "/kubepods/pod-" + id}}, nil)
	c, err := h.cch.InsertContainer(&nri.Container{Id: id, PodSandboxId: "pod-" + id, Name: id,
		Linux: &nri.LinuxContainer{Resources: &nri.LinuxResources{
			Cpu:    &nri.LinuxCPU{Shares: nri.UInt64(cpus * 1024)},
			Memory: &nri.LinuxMemory{Limit: nri.Int64(100 * 1000 * 1000)},
		}}}, cache.WithContainerState(cache.ContainerStateRunning))
	if err != nil {
		h.t.Fatal(err)
	}
	return c
}

// drain does what nri.go's getPendingUpdates() does in a successful reply.
func (h *c05Harness) drain() {
	for _, c := range h.cch.GetPendingContainers() {
		c.GetPendingUpdate()
		for _, ctl := range c.GetPending() {
			c.ClearPending(ctl)
		}
	}
}

func (h *c05Harness) dump(when string) {
	for _, bln := range h.p.balloons {
		h.t.Logf("%s: balloon %s cpus=%q sharedIdle=%q containers=%v", when, bln.PrettyName(), bln.Cpus, bln.SharedIdleCpus, bln.ContainerIDs())
	}
	h.t.Logf("%s: free cpus=%q", when, h.p.freeCpus)
}

// Scenario:
//
//	desktop fixture: 1 socket, 20 CPUs. 1 CPU reserved.
//	balloon type "shared" (namespace ns-shared): minCPUs 1, shareIdleCPUsInSame: system
//	balloon type "big"    (namespace ns-big):    minCPUs 2 (+ maxCPUs 4 in the first case)
//	X (ns-shared, 1 CPU) runs in shared[0]: pinned to its own CPU + all idle CPUs.
//	CreateContainer(Y) (ns-big) asks for more CPUs than a "big" balloon can ever get.
//	AllocateResources(Y): FillNewBalloon -> newBalloon() inflates a new big balloon to
//	minCPUs=2 -> resizeBalloon() takes 2 idle CPUs, shareIdleCpus()+updatePinning()
//	shrink X's cpuset -> then "MaxAvailMilliCpus < request" -> undo() (which gives the
//	CPUs back to freeCpus but does not restore X) -> "no suitable balloon instance
//	available" error is returned.
func TestC05BalloonsAllocateResourcesErrorAfterChangingOthers(t *testing.T) {
	for _, tc := range []struct {
		name    string
		bigMax  int
		hogMin  int    // CPUs preallocated by a third balloon type (minBalloons: 1)
		yCPUs   uint64 // Y's request
		comment string
	}{
		{name: "request exceeds balloon type maxCPUs", bigMax: 4, yCPUs: 6,
			comment: "pod requests 6 CPUs from a balloon type with maxCPUs: 4"},
		{name: "request exceeds free CPUs", bigMax: 0, hogMin: 14, yCPUs: 6,
			comment: "19 allocatable CPUs for kubelet, but 14 are preallocated to another balloon type and 1 used by X: only 4 free"},
	} {
		t.Run(tc.name, func(t *testing.T) {
			defs := []*cfgapi.BalloonDef{
				{Name: "shared", Namespaces: []string{"ns-shared"}, MinCpus: 1, ShareIdleCpusInSame: cfgapi.CPUTopologyLevelSystem},
				{Name: "big", Namespaces: []string{"ns-big"}, MinCpus: 2, MaxCpus: tc.bigMax},
			}
			if tc.hogMin > 0 {
				defs = append(defs, &cfgapi.BalloonDef{Name: "hog", Namespaces: []string{"ns-hog"}, MinCpus: tc.hogMin, MinBalloons: 1})
			}
			h := c05NewHarness(t, &cfgapi.Config{
				ReservedResources: cfgapi.Constraints{cfgapi.CPU: "1"},
				BalloonDefs:       defs,
			})
			t.Logf("scenario: %s", tc.comment)

			X := h.mk("ctrX", "ns-shared", 1)
			if err := h.p.AllocateResources(X); err != nil {
				t.Fatalf("AllocateResources(X): %v", err)
			}
			h.drain() // delivered by X's successful CreateContainer reply
			h.dump("initial")
			xBefore := X.GetCpusetCpus()
			t.Logf("initial: X cpuset.cpus=%q, pending containers: %d", xBefore, len(h.cch.GetPendingContainers()))

			Y := h.mk("ctrY", "ns-big", tc.yCPUs)
			t.Logf("CreateContainer(Y): requests %v", Y.GetResourceRequirements().Requests)

			err := h.p.AllocateResources(Y)

			t.Logf("AllocateResources(Y) returned: %v", err)
			h.dump("after")
			t.Logf("after: X cpuset.cpus=%q", X.GetCpusetCpus())
			if err == nil {
				t.Skipf("AllocateResources(Y) succeeded; error-path scenario not reached")
			}
			for _, c := range h.cch.GetPendingContainers() {
				if c.GetID() == Y.GetID() {
					continue
				}
				t.Errorf("DEFECT: AllocateResources(%s) returned error %q AFTER having changed container %s's cpuset.cpus from %q to %q; it is left pending %v in the cache (nri.go returns the error without draining)",
					Y.GetID(), err, c.GetID(), xBefore, c.GetCpusetCpus(), c.GetPending())
			}
		})
	}
}
