// Demonstration (on the real code, `go test -overlay`, package cache) of the C15 obligation
//   cache:(*pod).goFetchPodResources/post  "p.waitResCh != nil && p.podResCh == ch"
// which does not discharge on the original code: the two fields a reader synchronises on were assigned inside the
// spawned goroutine, so a reader that runs before the goroutine is scheduled sees waitResCh == nil, does not
// wait, and returns the stale (nil) PodResources although the fetch has been started and its result is available.
// FAILS before the fix "fix: start the pod resources fetch with the wait channel already in place", passes after it.
package cache

import (
	"runtime"
	"testing"

	nri "github.com/containerd/nri/pkg/api"
	"github.com/containers/nri-plugins/pkg/agent/podresapi"
)

func TestFindingPodResourcesFetchObservedByLaterReader(t *testing.T) {
	// one P: the spawned goroutine runs only when the reader blocks - the schedule the property must also cover
	defer runtime.GOMAXPROCS(runtime.GOMAXPROCS(1))
	for i := 0; i < 100; i++ {
		c, err := NewCache(Options{CacheDir: t.TempDir()})
		if err != nil {
			t.Fatal(err)
		}
		ch := make(chan *podresapi.PodResources, 1)
		ch <- &podresapi.PodResources{} // the fetch has completed already
		close(ch)
		p := c.InsertPod(&nri.PodSandbox{Id: "p1", Name: "pod", Namespace: "ns",
			Linux: &nri.LinuxPodSandbox{CgroupParent: "/kubepods/burstable/podp1"}}, ch)
		if p.GetPodResources() == nil {
			t.Fatalf("iteration %d: fetch started by InsertPod, result available, but the next reader got nil pod resources", i)
		}
	}
}
