package libmem_test

// Demonstration of the defect found by the failing obligation
//   (*Allocator).Allocate/post#2: result2 == nil ==> a.version != old(a.version)
// (and the same clause of Realloc): on the pinned commit a successful Allocate/Realloc did not
// invalidate outstanding offers, so an offer taken before it could still be committed, driving a
// zone over its capacity (C06 "an offer taken before any later successful allocation ... is refused",
// C07/C04 "every node set ... holds no more than its capacity").
// Run: cp into pkg/resmgr/lib/memory (or use go test -overlay) and `go test -run TestGovcStaleOffer`.

import (
	"testing"

	. "github.com/containers/nri-plugins/pkg/resmgr/lib/memory"
	"github.com/containers/nri-plugins/pkg/utils/cpuset"
)

func TestGovcStaleOfferAfterAllocate(t *testing.T) {
	n0, err := NewNode(0, TypeDRAM, 100, true, cpuset.New(0, 1), []int{10, 21})
	if err != nil {
		t.Fatal(err)
	}
	n1, err := NewNode(1, TypeDRAM, 100, true, cpuset.New(2, 3), []int{21, 10})
	if err != nil {
		t.Fatal(err)
	}
	a, err := NewAllocator(WithNodes([]*Node{n0, n1}))
	if err != nil {
		t.Fatal(err)
	}
	offer, err := a.GetOffer(Container("A", "a", "guaranteed", 80, NewNodeMask(0)))
	if err != nil {
		t.Fatal(err)
	}
	if _, _, err = a.Allocate(Container("B", "b", "guaranteed", 80, NewNodeMask(0))); err != nil {
		t.Fatal(err)
	}
	zone, _, err := offer.Commit()
	if err == nil {
		t.Fatalf("GOVC-CLAUSE-VIOLATED: stale offer committed to %v after a successful Allocate; ZoneFree(node0) = %d", zone, a.ZoneFree(NewNodeMask(0)))
	}
	t.Logf("stale offer refused: %v", err)
}

func TestGovcStaleOfferAfterRealloc(t *testing.T) {
	n0, _ := NewNode(0, TypeDRAM, 100, true, cpuset.New(0, 1), []int{10, 21, 21})
	n1, _ := NewNode(1, TypeDRAM, 100, true, cpuset.New(2, 3), []int{21, 10, 21})
	n2, _ := NewNode(2, TypeDRAM, 100, true, cpuset.New(4, 5), []int{21, 21, 10})
	a, err := NewAllocator(WithNodes([]*Node{n0, n1, n2}))
	if err != nil {
		t.Fatal(err)
	}
	if _, _, err = a.Allocate(Container("B", "b", "guaranteed", 80, NewNodeMask(0))); err != nil {
		t.Fatal(err)
	}
	offer, err := a.GetOffer(Container("A", "a", "guaranteed", 80, NewNodeMask(1)))
	if err != nil {
		t.Fatal(err)
	}
	if _, _, err = a.Realloc("B", NewNodeMask(1), 0); err != nil {
		t.Fatal(err)
	}
	if _, _, err := offer.Commit(); err == nil {
		t.Fatalf("GOVC-CLAUSE-VIOLATED: stale offer committed after a successful Realloc")
	}
}
