package balloons

import (
	"fmt"
	"os"
	"path"
	"reflect"
	"testing"

	nri "github.com/containerd/nri/pkg/api"
	cfgapi "github.com/containers/nri-plugins/pkg/apis/config/v1alpha1/resmgr/policy/balloons"
	"github.com/containers/nri-plugins/pkg/resmgr/cache"
	policyapi "github.com/containers/nri-plugins/pkg/resmgr/policy"
	system "github.com/containers/nri-plugins/pkg/sysfs"
	"github.com/containers/nri-plugins/pkg/utils"
)

func reproSetup(t *testing.T) (*balloons, cache.Cache, *cfgapi.Config) {
	dir, err := os.MkdirTemp("", "repro-sysfs-")
	if err != nil {
		t.Fatal(err)
	}
	t.Cleanup(func() { os.RemoveAll(dir) })
	if err := utils.UncompressTbz2("/repo/cmd/plugins/topology-aware/policy/testdata/sysfs.tar.bz2", dir); err != nil {
		t.Fatal(err)
	}
	root := path.Join(dir, "sysfs", "server")
	system.SetSysRoot(root)
	sys, err := system.DiscoverSystemAt(path.Join(root, "sys"))
	if err != nil {
		t.Fatal(err)
	}
	cch, err := cache.NewCache(cache.Options{CacheDir: path.Join(dir, "cache")})
	if err != nil {
		t.Fatal(err)
	}
	cfg := &cfgapi.Config{
		ReservedResources: cfgapi.Constraints{cfgapi.CPU: "1"},
		BalloonDefs: []*cfgapi.BalloonDef{
			{Name: "b", MinCpus: 1, MaxCpus: 4, MinBalloons: 1},
		},
	}
	p := New().(*balloons)
	if err := p.Setup(&policyapi.BackendOptions{System: sys, Cache: cch, Config: cfg}); err != nil {
		t.Fatalf("setup: %v", err)
	}
	return p, cch, cfg
}

// C09/C13: a stopped (exited, not yet removed) container is re-admitted by Reconfigure.
func TestReproStoppedContainerReadmitted(t *testing.T) {
	p, cch, cfg := reproSetup(t)
	cch.InsertPod(&nri.PodSandbox{Id: "pod0", Name: "pod0", Uid: "uid0", Namespace: "default"}, nil)
	c, err := cch.InsertContainer(&nri.Container{Id: "ctr0", PodSandboxId: "pod0", Name: "ctr0", State: nri.ContainerState_CONTAINER_RUNNING})
	if err != nil {
		t.Fatal(err)
	}
	if err := p.AllocateResources(c); err != nil {
		t.Fatal(err)
	}
	if p.balloonByContainer(c) == nil {
		t.Fatal("container not in a balloon after AllocateResources")
	}
	// StopContainer: resources released, container stays cached in state Exited
	if err := p.ReleaseResources(c); err != nil {
		t.Fatal(err)
	}
	c.UpdateState(cache.ContainerStateExited)
	if p.balloonByContainer(c) != nil {
		t.Fatal("container still in a balloon after ReleaseResources")
	}
	newCfg := cfg.DeepCopy()
	newCfg.BalloonDefs[0].MaxCpus = 8 // an accepted change
	if err := p.Reconfigure(newCfg); err != nil {
		t.Fatalf("reconfigure: %v", err)
	}
	if bln := p.balloonByContainer(c); bln != nil {
		t.Errorf("DEFECT: exited container %s (state %v) re-admitted into balloon %s by Reconfigure", c.PrettyName(), c.GetState(), bln.PrettyName())
	}
}

// C13: a rejected update changes p.allowed / p.reserved, and the resource manager's revert (re-applying the
// old configuration) is short-circuited as "no configuration changes", so the change survives.
func TestReproRejectedConfigChangesAllowed(t *testing.T) {
	p, _, cfg := reproSetup(t)
	allowed0, reserved0 := p.allowed.Clone(), p.reserved.Clone()
	bad := cfg.DeepCopy()
	bad.AvailableResources = cfgapi.Constraints{cfgapi.CPU: "cpuset:0-3"}
	bad.ReservedResources = cfgapi.Constraints{cfgapi.CPU: "cpuset:0"}
	bad.BalloonDefs = append(bad.BalloonDefs, &cfgapi.BalloonDef{Name: "b"}) // duplicate name: rejected by validateConfig
	err := p.Reconfigure(bad)
	if err == nil {
		t.Fatal("duplicate balloon type name accepted")
	}
	t.Logf("rejected as expected: %v", err)
	if !p.allowed.Equals(allowed0) || !p.reserved.Equals(reserved0) {
		t.Errorf("DEFECT: rejected update changed allowed %q -> %q, reserved %q -> %q", allowed0, p.allowed, reserved0, p.reserved)
	}
	// resmgr-level revert: re-apply the previous configuration
	if err := p.Reconfigure(cfg); err != nil {
		t.Fatalf("revert: %v", err)
	}
	if !p.allowed.Equals(allowed0) || !p.reserved.Equals(reserved0) {
		t.Errorf("DEFECT: after the revert allowed is still %q (was %q), reserved %q (was %q)", p.allowed, allowed0, p.reserved, reserved0)
	}
}

// C13 (idempotence): re-applying the identical configuration is not recognised as "no changes": p.bpoptions holds
// the effective configuration (built-in types and namespaces filled in), which never equals the raw one.
func TestReproIdenticalConfigRebuildsEverything(t *testing.T) {
	p, _, cfg := reproSetup(t)
	b0 := p.balloons[0]
	opts0 := p.bpoptions
	if err := p.Reconfigure(cfg.DeepCopy()); err != nil {
		t.Fatal(err)
	}
	if p.bpoptions != opts0 || p.balloons[0] != b0 {
		t.Errorf("DEFECT(idempotence): identical configuration treated as a change: balloons rebuilt (changesBalloons=%v)", changesBalloons(opts0, cfg))
	}
}

// C02: a container requesting 2000 mCPU is admitted into an existing empty balloon whose type allows 1 CPU at most.
func TestReproOversizedContainerAdmitted(t *testing.T) {
	p, cch, cfg := reproSetup(t)
	cfg2 := cfg.DeepCopy()
	cfg2.BalloonDefs = []*cfgapi.BalloonDef{{Name: "one", MinCpus: 1, MaxCpus: 1, MinBalloons: 1, MaxBalloons: 1, Namespaces: []string{"default"}}}
	if err := p.Reconfigure(cfg2); err != nil {
		t.Fatal(err)
	}
	cch.InsertPod(&nri.PodSandbox{Id: "pod1", Name: "pod1", Uid: "uid1", Namespace: "default"}, nil)
	c, err := cch.InsertContainer(&nri.Container{Id: "ctr1", PodSandboxId: "pod1", Name: "ctr1", State: nri.ContainerState_CONTAINER_CREATED,
		Linux: &nri.LinuxContainer{Resources: &nri.LinuxResources{Cpu: &nri.LinuxCPU{Shares: &nri.OptionalUInt64{Value: 2048}}}}})
	if err != nil {
		t.Fatal(err)
	}
	req := p.containerRequestedMilliCpus(c.GetID())
	err = p.AllocateResources(c)
	bln := p.balloonByContainer(c)
	t.Logf("request %d mCPU, AllocateResources error: %v", req, err)
	if err == nil && bln != nil && bln.AvailMilliCpus() < req {
		t.Errorf("DEFECT: container requesting %d mCPU admitted into balloon %s with %d mCPU (MaxCpus=%d)", req, bln.PrettyName(), bln.AvailMilliCpus(), bln.Def.MaxCpus)
	}
}

// classProbe reads the CPU class assignments ("CPUClassAssignments" policy entry of the cpu controller) from the cache.
type classProbe struct{ classes map[string]string }

func (cp *classProbe) Set(v interface{}) {
	cp.classes = map[string]string{}
	rv := reflect.ValueOf(v)
	if rv.Kind() == reflect.Ptr {
		rv = rv.Elem()
	}
	for _, k := range rv.MapKeys() {
		cp.classes[k.String()] = fmt.Sprintf("%v", rv.MapIndex(k).Interface())
	}
}
func (cp *classProbe) Get() interface{} { return cp.classes }

// C02 (CPU classes) / C09: when a freshly created balloon is given up again (container does not fit), undo() returns
// its CPUs to p.freeCpus but they keep the balloon type's CPU class instead of the idle class.
func TestReproUndoLeavesCpuClass(t *testing.T) {
	p, cch, cfg := reproSetup(t)
	cfg2 := cfg.DeepCopy()
	cfg2.IdleCpuClass = "idle"
	cfg2.BalloonDefs = []*cfgapi.BalloonDef{{Name: "two", MinCpus: 2, MaxCpus: 2, CpuClass: "turbo", Namespaces: []string{"default"}}}
	if err := p.Reconfigure(cfg2); err != nil {
		t.Fatal(err)
	}
	free0 := p.freeCpus.Clone()
	cch.InsertPod(&nri.PodSandbox{Id: "pod2", Name: "pod2", Uid: "uid2", Namespace: "default"}, nil)
	c, err := cch.InsertContainer(&nri.Container{Id: "ctr2", PodSandboxId: "pod2", Name: "ctr2", State: nri.ContainerState_CONTAINER_CREATED,
		Linux: &nri.LinuxContainer{Resources: &nri.LinuxResources{Cpu: &nri.LinuxCPU{Shares: &nri.OptionalUInt64{Value: 3072}}}}})
	if err != nil {
		t.Fatal(err)
	}
	err = p.AllocateResources(c)
	t.Logf("AllocateResources (3000 mCPU into type with MaxCpus=2): %v", err)
	if !p.freeCpus.Equals(free0) {
		t.Errorf("free CPUs changed: %q -> %q", free0, p.freeCpus)
	}
	probe := &classProbe{}
	cch.GetPolicyEntry("CPUClassAssignments", probe)
	t.Logf("class assignments: %v", probe.classes)
	if cpus, ok := probe.classes["turbo"]; ok && cpus != "" && cpus != "{}" && len(p.balloonsByDef(p.balloonDefByName("two"))) == 0 {
		t.Errorf("DEFECT: no balloon of type 'two' exists, yet CPUs %s still carry its class 'turbo' (all free CPUs should be 'idle')", cpus)
	}
}

// C02 (completeness of idle sharing): CPUs of a deleted balloon (its MinCpus) return to p.freeCpus but are not
// re-shared to balloons that share idle CPUs in the scope.
func TestReproDeletedBalloonCpusNotReshared(t *testing.T) {
	p, cch, cfg := reproSetup(t)
	cfg2 := cfg.DeepCopy()
	cfg2.BalloonDefs = []*cfgapi.BalloonDef{
		{Name: "sharer", MinCpus: 1, MinBalloons: 1, ShareIdleCpusInSame: cfgapi.CPUTopologyLevelSystem, Namespaces: []string{"shr"}},
		{Name: "tmp", MinCpus: 2, MaxCpus: 2, Namespaces: []string{"tmp"}},
	}
	if err := p.Reconfigure(cfg2); err != nil {
		t.Fatal(err)
	}
	sharer := p.balloonsByDef(p.balloonDefByName("sharer"))[0]
	idle := func() string { return p.freeCpus.Difference(p.options.System.Isolated()).String() }
	t.Logf("before: sharer shared idle %q, idle non-isolated %q", sharer.SharedIdleCpus, idle())
	if !sharer.SharedIdleCpus.Equals(p.freeCpus.Difference(p.options.System.Isolated())) {
		t.Fatalf("precondition: sharer does not share all idle CPUs")
	}
	cch.InsertPod(&nri.PodSandbox{Id: "pod3", Name: "pod3", Uid: "uid3", Namespace: "tmp"}, nil)
	c, err := cch.InsertContainer(&nri.Container{Id: "ctr3", PodSandboxId: "pod3", Name: "ctr3", State: nri.ContainerState_CONTAINER_CREATED,
		Linux: &nri.LinuxContainer{Resources: &nri.LinuxResources{Cpu: &nri.LinuxCPU{Shares: &nri.OptionalUInt64{Value: 1024}}}}})
	if err != nil {
		t.Fatal(err)
	}
	if err := p.AllocateResources(c); err != nil {
		t.Fatal(err)
	}
	if err := p.ReleaseResources(c); err != nil {
		t.Fatal(err)
	}
	if n := len(p.balloonsByDef(p.balloonDefByName("tmp"))); n != 0 {
		t.Fatalf("tmp balloon not deleted (%d)", n)
	}
	want := p.freeCpus.Difference(p.options.System.Isolated())
	if !sharer.SharedIdleCpus.Equals(want) {
		t.Errorf("DEFECT: after the tmp balloon was deleted, idle CPUs %q are not shared to balloon %s (shares %d of %d idle CPUs)",
			want.Difference(sharer.SharedIdleCpus), sharer.PrettyName(), sharer.SharedIdleCpus.Size(), want.Size())
	}
}
