package topologyaware

import (
	"os"
	"path"
	"testing"

	cfgapi "github.com/containers/nri-plugins/pkg/apis/config/v1alpha1/resmgr/policy/topologyaware"
	"github.com/containers/nri-plugins/pkg/resmgr/cache"
	policyapi "github.com/containers/nri-plugins/pkg/resmgr/policy"
	system "github.com/containers/nri-plugins/pkg/sysfs"
	"github.com/containers/nri-plugins/pkg/utils"
	"github.com/containers/nri-plugins/pkg/utils/cpuset"
	v1 "k8s.io/api/core/v1"
	"k8s.io/apimachinery/pkg/api/resource"
)

// recCtr records what the policy tells the runtime.
type recCtr struct {
	mockContainer
	preserve   bool
	cpus       string
	cpusWrites int
	shares     int64
	shareWr    int
}

func (c *recCtr) SetCpusetCpus(s string)     { c.cpus = s; c.cpusWrites++ }
func (c *recCtr) SetCPUShares(s int64)       { c.shares = s; c.shareWr++ }
func (c *recCtr) PreserveCpuResources() bool { return c.preserve }
func (c *recCtr) GetCPUShares() int64        { return c.shares }
func (c *recCtr) GetCpusetCpus() string      { return c.cpus }
func (c *recCtr) GetCpusetMems() string      { return "" }

var _ cache.Container = &recCtr{}

func verifSetup(t *testing.T, machine string) *policy {
	dir, err := os.MkdirTemp("", "verif-sysfs-")
	if err != nil {
		t.Fatal(err)
	}
	t.Cleanup(func() { os.RemoveAll(dir) })
	if err := utils.UncompressTbz2(path.Join("testdata", "sysfs.tar.bz2"), dir); err != nil {
		t.Fatal(err)
	}
	sys, err := system.DiscoverSystemAt(path.Join(dir, "sysfs", machine, "sys"))
	if err != nil {
		t.Fatal(err)
	}
	p := New().(*policy)
	pin := true
	_ = pin
	if err := p.Setup(&policyapi.BackendOptions{
		Cache:  &mockCache{},
		System: sys,
		Config: &cfgapi.Config{PinCPU: true, PinMemory: true, ReservedResources: cfgapi.Constraints{cfgapi.CPU: "750m"}},
	}); err != nil {
		t.Fatalf("setup: %v", err)
	}
	return p
}

func mkCtr(id string, qos v1.PodQOSClass, milli int64) *recCtr {
	c := &recCtr{}
	c.name = id
	c.namespace = "default"
	c.returnValueForGetID = id
	c.returnValueForQOSClass = qos
	c.pod = &mockPod{name: "pod-" + id, returnValueFotGetQOSClass: qos}
	if milli > 0 {
		q := resource.NewMilliQuantity(milli, resource.DecimalSI)
		c.returnValueForGetResourceRequirements = v1.ResourceRequirements{
			Requests: v1.ResourceList{v1.ResourceCPU: *q},
			Limits:   v1.ResourceList{v1.ResourceCPU: *q},
		}
	}
	return c
}

// cpu.preserve container: its cpu.shares must not be touched / must encode its request
func TestVerifPreserveShares(t *testing.T) {
	p := verifSetup(t, "desktop")
	c := mkCtr("preserved", v1.PodQOSBurstable, 2000)
	c.preserve = true
	c.shares = 2048 // what the runtime had: kubelet encoding of 2000m
	if err := p.AllocateResources(c); err != nil {
		t.Fatalf("allocate: %v", err)
	}
	g := p.allocations.grants[c.GetID()]
	t.Logf("grant: cpuType=%v portion=%d; cpuset writes=%d; cpu.shares writes=%d, cpu.shares now %d", g.CPUType(), g.CPUPortion(), c.cpusWrites, c.shareWr, c.shares)
	if c.cpusWrites != 0 {
		t.Errorf("cpuset written for a cpu.preserve container")
	}
	if c.shareWr != 0 {
		t.Errorf("SUSPECT: cpu.shares of a cpu.preserve container (request 2000m, shares 2048) rewritten to %d", c.shares)
	}
}

// a BestEffort container in a leaf pool whose shared CPUs are all sliced off by an exclusive allocation one level up
func TestVerifEmptySharedSet(t *testing.T) {
	p := verifSetup(t, "server")
	be := mkCtr("besteffort", v1.PodQOSBestEffort, 0)
	if err := p.AllocateResources(be); err != nil {
		t.Fatalf("allocate be: %v", err)
	}
	gbe := p.allocations.grants[be.GetID()]
	pool := gbe.GetCPUNode()
	t.Logf("BestEffort container placed in %s, told cpuset %q; pool shared set %s", pool.Name(), be.cpus, pool.FreeSupply().SharableCPUs())
	n := pool.FreeSupply().SharableCPUs().Size()
	// now exclusive requests until the pool of the BestEffort container runs dry
	var excl []*recCtr
	for i := 0; i < 8; i++ {
		n = pool.FreeSupply().SharableCPUs().Size()
		g := mkCtr("guaranteed"+string(rune('0'+i)), v1.PodQOSGuaranteed, int64(n)*1000)
		if err := p.AllocateResources(g); err != nil {
			t.Logf("allocate %s: %v", g.name, err)
			break
		}
		gg := p.allocations.grants[g.GetID()]
		excl = append(excl, g)
		t.Logf("%s: %d exclusive CPUs from %s: %s; BestEffort pool %s shared set now %q; BestEffort container told %q (writes %d)",
			g.name, gg.ExclusiveCPUs().Size(), gg.GetCPUNode().Name(), gg.ExclusiveCPUs(), pool.Name(), pool.FreeSupply().SharableCPUs().String(), be.cpus, be.cpusWrites)
		if pool.FreeSupply().SharableCPUs().IsEmpty() {
			break
		}
	}
	if be.cpus == "" {
		t.Errorf("SUSPECT: BestEffort container is told the empty cpuset (= unpinned, may run on every CPU, incl. exclusive ones)")
	}
	told, _ := cpuset.Parse(be.cpus)
	for _, g := range excl {
		gg := p.allocations.grants[g.GetID()]
		if !told.Intersection(gg.ExclusiveCPUs()).IsEmpty() {
			t.Errorf("BestEffort cpuset %s overlaps exclusive CPUs %s of %s", told, gg.ExclusiveCPUs(), g.name)
		}
	}
}
