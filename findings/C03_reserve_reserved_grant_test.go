package topologyaware

import (
	"os"
	"path"
	"testing"

	cfgapi "github.com/containers/nri-plugins/pkg/apis/config/v1alpha1/resmgr/policy/topologyaware"
	libmem "github.com/containers/nri-plugins/pkg/resmgr/lib/memory"
	policyapi "github.com/containers/nri-plugins/pkg/resmgr/policy"
	system "github.com/containers/nri-plugins/pkg/sysfs"
	"github.com/containers/nri-plugins/pkg/utils"
	"github.com/containers/nri-plugins/pkg/utils/cpuset"
)

func TestVerifReserveReservedGrant(t *testing.T) {
	dir, err := os.MkdirTemp("", "verif-sysfs-")
	if err != nil {
		t.Fatal(err)
	}
	defer os.RemoveAll(dir)
	if err := utils.UncompressTbz2(path.Join("testdata", "sysfs.tar.bz2"), dir); err != nil {
		t.Fatal(err)
	}
	sys, err := system.DiscoverSystemAt(path.Join(dir, "sysfs", "desktop", "sys"))
	if err != nil {
		t.Fatal(err)
	}
	p := New().(*policy)
	if err := p.Setup(&policyapi.BackendOptions{
		Cache:  &mockCache{},
		System: sys,
		Config: &cfgapi.Config{ReservedResources: cfgapi.Constraints{cfgapi.CPU: "750m"}},
	}); err != nil {
		t.Fatalf("setup: %v", err)
	}
	pool := p.root
	free := pool.FreeSupply()
	t.Logf("reserved cpus %s, allocatable reserved before: %d, grantedReserved %d", free.ReservedCPUs(), free.(*supply).AllocatableReservedCPU(), free.GrantedReserved())

	// what the cache restores after a restart for a kube-system container that had been granted 500m reserved CPU
	g := newGrant(pool, &mockContainer{}, cpuReserved, cpuset.New(), 500, memoryDRAM, 0)
	g.SetMemoryZone(libmem.NewNodeMask(pool.GetMemset(memoryDRAM).Members()...))
	g.SetMemorySize(1000)
	o, err := p.restoreMemOffer(g)
	if err != nil {
		t.Fatalf("offer: %v", err)
	}
	if _, err := free.Reserve(g, o); err != nil {
		t.Fatalf("Reserve: %v", err)
	}
	t.Logf("after Reserve: grant ReservedPortion=%d, supply grantedReserved=%d, allocatable reserved=%d",
		g.ReservedPortion(), free.GrantedReserved(), free.(*supply).AllocatableReservedCPU())
	if free.GrantedReserved() != g.ReservedPortion() {
		t.Errorf("DEFECT: reinstated reserved grant of %dm is accounted as %dm", g.ReservedPortion(), free.GrantedReserved())
	}
	free.ReleaseCPU(g)
	t.Logf("after ReleaseCPU: supply grantedReserved=%d, allocatable reserved=%d (capacity %d)",
		free.GrantedReserved(), free.(*supply).AllocatableReservedCPU(), 1000*free.ReservedCPUs().Size())
	if free.GrantedReserved() != 0 {
		t.Errorf("DEFECT: after releasing everything grantedReserved=%d, not 0", free.GrantedReserved())
	}
}
