package main

import (
	"context"
	"testing"

	"github.com/containerd/nri/pkg/api"
	"github.com/sirupsen/logrus"
)

func init() { log = logrus.StandardLogger() }

func catch(t *testing.T, name string, f func()) {
	defer func() {
		if r := recover(); r != nil {
			t.Errorf("%s: PANIC: %v", name, r)
		}
	}()
	f()
}

// plugin without configuration (no -config flag, empty NRI config), pod annotated with a unified parameter
func TestUnconfiguredUnifiedAnnotation(t *testing.T) {
	p := &plugin{}
	pod := &api.PodSandbox{Name: "pod0", Namespace: "default", Annotations: map[string]string{"memory.high.memory-qos.nri.io": "1000000"}}
	ctr := &api.Container{Name: "c0"}
	catch(t, "CreateContainer unconfigured", func() { _, _, err := p.CreateContainer(context.Background(), pod, ctr); t.Logf("err=%v", err) })
}

// configured plugin, class annotation, container without Linux / Resources / Memory sub-message
func TestClassNoMemory(t *testing.T) {
	p := &plugin{}
	if err := p.setConfig([]byte("classes:\n- name: swap\n  swaplimitratio: 0.5\n")); err != nil {
		t.Fatal(err)
	}
	pod := &api.PodSandbox{Name: "pod0", Namespace: "default", Annotations: map[string]string{"class.memory-qos.nri.io": "swap"}}
	for name, ctr := range map[string]*api.Container{
		"no Linux":     {Name: "c0"},
		"no Resources": {Name: "c0", Linux: &api.LinuxContainer{}},
		"no Memory":    {Name: "c0", Linux: &api.LinuxContainer{Resources: &api.LinuxResources{Cpu: &api.LinuxCPU{}}}},
		"no Limit":     {Name: "c0", Linux: &api.LinuxContainer{Resources: &api.LinuxResources{Memory: &api.LinuxMemory{}}}},
	} {
		catch(t, name, func() { _, _, err := p.CreateContainer(context.Background(), pod, ctr); t.Logf("%s: err=%v", name, err) })
	}
}
