package main

import (
	"context"
	"testing"

	"github.com/containerd/nri/pkg/api"
	"github.com/sirupsen/logrus"
)

func init() { log = logrus.StandardLogger() }

func catch(t *testing.T, name string, f func()) {
	defer func() {
		if r := recover(); r != nil {
			t.Errorf("%s: PANIC: %v", name, r)
		}
	}()
	f()
}

// configured class with a memtierd configuration; container message without the optional Linux sub-message
func TestStartContainerNoLinux(t *testing.T) {
	p := &plugin{ctrMemtierdEnv: map[string]*memtierdEnv{}, cgroupsDir: t.TempDir()}
	if err := p.setConfig([]byte("classes:\n- name: swap-idle\n  memtierdconfig: |\n    policy: {}\n")); err != nil {
		t.Fatal(err)
	}
	opt.runDir = t.TempDir()
	pod := &api.PodSandbox{Name: "pod0", Namespace: "default", Annotations: map[string]string{"class.memtierd.nri.io": "swap-idle"}}
	ctr := &api.Container{Id: "0123", Name: "c0"}
	catch(t, "CreateContainer", func() { _, _, err := p.CreateContainer(context.Background(), pod, ctr); t.Logf("create err=%v", err) })
	catch(t, "StartContainer no Linux", func() { err := p.StartContainer(context.Background(), pod, ctr); t.Logf("start err=%v", err) })
	catch(t, "StopContainer", func() { _, err := p.StopContainer(context.Background(), pod, ctr); t.Logf("stop err=%v", err) })
}

// unconfigured plugin
func TestUnconfigured(t *testing.T) {
	p := &plugin{ctrMemtierdEnv: map[string]*memtierdEnv{}}
	pod := &api.PodSandbox{Name: "pod0", Namespace: "default", Annotations: map[string]string{"class.memtierd.nri.io": "swap-idle", "memory.high.memtierd.nri.io/c0": "1"}}
	ctr := &api.Container{Id: "0123", Name: "c0"}
	catch(t, "CreateContainer", func() { _, _, err := p.CreateContainer(context.Background(), pod, ctr); t.Logf("create err=%v", err) })
	catch(t, "StartContainer", func() { err := p.StartContainer(context.Background(), pod, ctr); t.Logf("start err=%v", err) })
	catch(t, "StopContainer", func() { _, err := p.StopContainer(context.Background(), pod, ctr); t.Logf("stop err=%v", err) })
}
