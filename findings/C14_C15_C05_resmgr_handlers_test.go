package resmgr

import (
	"context"
	"fmt"
	"sync"
	"testing"

	"github.com/containerd/nri/pkg/api"
	"github.com/containers/nri-plugins/pkg/agent"
	cfgapi "github.com/containers/nri-plugins/pkg/apis/config/v1alpha1"
	"github.com/containers/nri-plugins/pkg/resmgr/cache"
	"github.com/containers/nri-plugins/pkg/resmgr/control"
	"github.com/containers/nri-plugins/pkg/resmgr/events"
	"github.com/containers/nri-plugins/pkg/resmgr/policy"
)

// fakePolicy: UpdateResources changes ANOTHER container and then fails.
type fakePolicy struct {
	other cache.Container
}

func (f *fakePolicy) ActivePolicy() string                                   { return "fake" }
func (f *fakePolicy) Start(interface{}) error                                { return nil }
func (f *fakePolicy) Reconfigure(interface{}) error                          { return nil }
func (f *fakePolicy) Sync([]cache.Container, []cache.Container) error        { return nil }
func (f *fakePolicy) AllocateResources(cache.Container) error                { return nil }
func (f *fakePolicy) ReleaseResources(cache.Container) error                 { return nil }
func (f *fakePolicy) HandleEvent(*events.Policy) (bool, error)               { return false, nil }
func (f *fakePolicy) ExportResourceData(cache.Container)                     {}
func (f *fakePolicy) GetTopologyZones() []*policy.TopologyZone               { return nil }
func (f *fakePolicy) UpdateResources(c cache.Container) error {
	f.other.SetCpusetCpus("3")
	return fmt.Errorf("no room")
}

func newHarness(t *testing.T) (*nriPlugin, cache.Cache) {
	cch, err := cache.NewCache(cache.Options{CacheDir: t.TempDir()})
	if err != nil {
		t.Fatal(err)
	}
	agt := &agent.Agent{}
	_ = agt
	m := &resmgr{cache: cch, cfg: &cfgapi.TemplatePolicy{}, agent: agt}
	ctl, err := control.NewControl(cch)
	if err != nil {
		t.Fatal(err)
	}
	m.control = ctl
	p := &nriPlugin{resmgr: m, byname: map[string]cache.Container{}}
	m.nri = p
	return p, cch
}

func TestC14StopPodSandboxUnknownPod(t *testing.T) {
	p, _ := newHarness(t)
	defer func() {
		if r := recover(); r != nil {
			t.Fatalf("PANIC: %v", r)
		}
	}()
	_ = p.StopPodSandbox(context.Background(), &api.PodSandbox{Id: "nosuchpod", Name: "x", Namespace: "y"})
}

func TestC14RemovePodSandboxUnknownPod(t *testing.T) {
	p, _ := newHarness(t)
	defer func() {
		if r := recover(); r != nil {
			t.Fatalf("PANIC: %v", r)
		}
	}()
	_ = p.RemovePodSandbox(context.Background(), &api.PodSandbox{Id: "nosuchpod", Name: "x", Namespace: "y"})
}

func TestC05UpdateContainerErrorLeavesPending(t *testing.T) {
	p, cch := newHarness(t)
	pod := &api.PodSandbox{Id: "pod0", Name: "pod0", Namespace: "default", Uid: "u0"}
	cch.InsertPod(pod, nil)
	mk := func(id string) cache.Container {
		c, err := cch.InsertContainer(&api.Container{Id: id, PodSandboxId: "pod0", Name: id,
			Linux: &api.LinuxContainer{Resources: &api.LinuxResources{Cpu: &api.LinuxCPU{Shares: api.UInt64(2)}}}},
			cache.WithContainerState(cache.ContainerStateRunning))
		if err != nil {
			t.Fatal(err)
		}
		return c
	}
	a, b := mk("ctrA"), mk("ctrB")
	for _, c := range cch.GetPendingContainers() { // start from a drained cache
		c.GetPendingUpdate()
		for _, ctl := range c.GetPending() {
			c.ClearPending(ctl)
		}
	}
	p.resmgr.policy = &fakePolicy{other: b}
	upd, err := p.UpdateContainer(context.Background(), pod, &api.Container{Id: a.GetID()},
		&api.LinuxResources{Cpu: &api.LinuxCPU{Shares: api.UInt64(2048)}})
	t.Logf("reply: updates=%v err=%v", upd, err)
	pend := cch.GetPendingContainers()
	for _, c := range pend {
		t.Errorf("after the (error) reply container %s still has an undelivered change: cpuset.cpus=%q", c.GetID(), c.GetCpusetCpus())
	}
}

func TestC15StopPodSandboxRace(t *testing.T) {
	p, cch := newHarness(t)
	p.resmgr.policy = &fakePolicy{}
	pod := &api.PodSandbox{Id: "pod0", Name: "pod0", Namespace: "default", Uid: "u0"}
	cch.InsertPod(pod, nil)
	var wg sync.WaitGroup
	wg.Add(2)
	go func() {
		defer wg.Done()
		for i := 0; i < 200; i++ {
			_ = p.StopPodSandbox(context.Background(), pod)
		}
	}()
	go func() {
		defer wg.Done()
		for i := 0; i < 200; i++ {
			id := fmt.Sprintf("ctr%d", i)
			_, _, _ = p.CreateContainer(context.Background(), pod, &api.Container{Id: id, PodSandboxId: "pod0", Name: id})
			_ = p.RemoveContainer(context.Background(), pod, &api.Container{Id: id})
		}
	}()
	wg.Wait()
}
