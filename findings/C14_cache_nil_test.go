// Demonstrations (on the real code, `go test -overlay`, package cache) of the C14 obligations of pkg/resmgr/cache that
// do not discharge because the code really panics. Every test FAILS (reports PANIC) on the unchanged tree.
//   TestFindingInsertContainerUnknownPod      (*cache).InsertContainer/safe:nil-field#8(in (*container).GetID), .../cover@ret2
//   TestFindingSetResourceUpdatesNilUpdate    (*container).SetResourceUpdates/call-pre:mergeNRIResources#1.0.1 (u != nil)
//   TestFindingSetResourceUpdatesNoResources  (*container).SetResourceUpdates/call-pre:mergeNRIResources#1.0.2 (orig != nil)
//   TestFindingGetAffinityPodGone             (*container).GetAffinity/safe:nil-invoke#1
//   TestFindingParseFullNullItem              (*podContainerAffinity).parseFull/safe:nil-field#3 (with safety=C14 on its block)
package cache

import (
	"testing"

	nri "github.com/containerd/nri/pkg/api"
)

func findingCatch(t *testing.T, f func()) {
	defer func() {
		if r := recover(); r != nil {
			t.Errorf("PANIC: %v", r)
		}
	}()
	f()
}

func findingCache(t *testing.T, ann map[string]string, ctr *nri.Container) (Cache, Container) {
	c, err := NewCache(Options{CacheDir: t.TempDir()})
	if err != nil {
		t.Fatal(err)
	}
	c.InsertPod(&nri.PodSandbox{Id: "p1", Name: "pod", Namespace: "ns", Annotations: ann,
		Linux: &nri.LinuxPodSandbox{CgroupParent: "/kubepods/burstable/podp1"}}, nil)
	cc, err := c.InsertContainer(ctr)
	if err != nil {
		t.Fatal(err)
	}
	return c, cc
}

// CreateContainer / Synchronize for a container whose pod the plugin has never seen: the error path of
// InsertContainer formats c.GetID() with c == nil.
func TestFindingInsertContainerUnknownPod(t *testing.T) {
	c, err := NewCache(Options{CacheDir: t.TempDir()})
	if err != nil {
		t.Fatal(err)
	}
	findingCatch(t, func() {
		_, err := c.InsertContainer(&nri.Container{Id: "c1", PodSandboxId: "no-such-pod", Name: "x"})
		t.Logf("returned err=%v", err)
	})
}

// UpdateContainer without a LinuxResources message: mergeNRIResources dereferences u == nil.
func TestFindingSetResourceUpdatesNilUpdate(t *testing.T) {
	_, cc := findingCache(t, nil, &nri.Container{Id: "c1", PodSandboxId: "p1", Name: "x", Linux: &nri.LinuxContainer{Resources: &nri.LinuxResources{}}})
	findingCatch(t, func() { cc.SetResourceUpdates(nil) })
}

// UpdateContainer for a cached container whose NRI message has no Linux.Resources: mergeNRIResources dereferences orig == nil.
func TestFindingSetResourceUpdatesNoResources(t *testing.T) {
	_, cc := findingCache(t, nil, &nri.Container{Id: "c1", PodSandboxId: "p1", Name: "x"})
	findingCatch(t, func() {
		cc.SetResourceUpdates(&nri.LinuxResources{Cpu: &nri.LinuxCPU{Shares: nri.UInt64(uint64(2))}})
	})
}

// A container that outlives its pod in the cache (pod removed first): GetAffinity logs the failed lookup and then
// calls GetContainerAffinity on the nil Pod interface.
func TestFindingGetAffinityPodGone(t *testing.T) {
	c, cc := findingCache(t, nil, &nri.Container{Id: "c1", PodSandboxId: "p1", Name: "x"})
	c.DeletePod("p1")
	findingCatch(t, func() {
		_, err := cc.GetAffinity()
		t.Logf("err=%v", err)
	})
}

// Affinity annotation in full notation with a YAML null list item: parseFull dereferences the nil *Affinity.
func TestFindingParseFullNullItem(t *testing.T) {
	ann := map[string]string{"resource-policy.nri.io/affinity": "x:\n- null\n- match:\n    key: name\n    operator: Exists\n"}
	_, cc := findingCache(t, ann, &nri.Container{Id: "c1", PodSandboxId: "p1", Name: "x"})
	findingCatch(t, func() {
		_, err := cc.GetAffinity()
		t.Logf("err=%v", err)
	})
}
