// Demonstration (on the real code, `go test -overlay`, package topologyaware) of the C13 obligations
//   policy:(*policy).Reconfigure/post "result != nil ==> opt == old(opt) && defaultPrio == old(defaultPrio)"
// that do not discharge on the original code: a configuration update that is REJECTED because the policy cannot be
// initialised with it (here: no CPU reservation) restores the policy object but leaves the package-level options
// `opt` (PinCPU, PinMemory, ...) and `defaultPrio` at the rejected configuration, so every later allocation decision is
// taken with the rejected options ("a configuration update that is rejected leaves ... all subsequent allocation
// decisions identical to never having received it").
// FAILS before the fix "fix: restore the active options when a topology-aware reconfiguration is rejected", passes after.
package topologyaware

import (
	"os"
	"path"
	"testing"

	nri "github.com/containerd/nri/pkg/api"

	cfgapi "github.com/containers/nri-plugins/pkg/apis/config/v1alpha1/resmgr/policy/topologyaware"
	"github.com/containers/nri-plugins/pkg/resmgr/cache"
	policyapi "github.com/containers/nri-plugins/pkg/resmgr/policy"
	system "github.com/containers/nri-plugins/pkg/sysfs"
	"github.com/containers/nri-plugins/pkg/utils"
)

func TestFindingRejectedReconfigureKeepsActiveOptions(t *testing.T) {
	sysfsDir, err := os.MkdirTemp("", "finding-c13-sysfs-")
	if err != nil {
		t.Fatal(err)
	}
	defer os.RemoveAll(sysfsDir)
	if err := utils.UncompressTbz2(path.Join("testdata", "sysfs.tar.bz2"), sysfsDir); err != nil {
		t.Fatalf("failed to uncompress test sysfs: %v", err)
	}
	sys, err := system.DiscoverSystemAt(path.Join(sysfsDir, "sysfs", "server", "sys"))
	if err != nil {
		t.Fatal(err)
	}
	cch, err := cache.NewCache(cache.Options{CacheDir: t.TempDir()})
	if err != nil {
		t.Fatal(err)
	}
	active := &cfgapi.Config{PinCPU: true, PinMemory: true, ReservedResources: cfgapi.Constraints{cfgapi.CPU: "750m"}}
	p := New().(*policy)
	if err := p.Setup(&policyapi.BackendOptions{Cache: cch, System: sys, Config: active,
		SendEvent: func(interface{}) error { return nil }}); err != nil {
		t.Fatal(err)
	}
	if err := p.Start(); err != nil {
		t.Fatal(err)
	}

	// rejected: the policy cannot start without a CPU reservation
	rejected := &cfgapi.Config{PinCPU: false, PinMemory: false}
	if err := p.Reconfigure(rejected); err == nil {
		t.Fatalf("the update without CPU reservation was expected to be rejected")
	}
	if opt != active {
		t.Errorf("after the rejected update the policy decides with the rejected options (PinCPU=%v, PinMemory=%v), not the active ones", opt.PinCPU, opt.PinMemory)
	}

	// ... and the next allocation decision shows it: the container is not pinned
	pod := &nri.PodSandbox{Id: "pod0", Uid: "uid0", Name: "pod0", Namespace: "default",
		Linux: &nri.LinuxPodSandbox{CgroupParent: "/kubepods/burstable/pod0"}}
	cch.InsertPod(pod, nil)
	c, err := cch.InsertContainer(&nri.Container{Id: "ctr0", PodSandboxId: "pod0", Name: "c0", State: cache.ContainerStateCreating,
		Linux: &nri.LinuxContainer{Resources: &nri.LinuxResources{
			Cpu:    &nri.LinuxCPU{Shares: nri.UInt64(512), Quota: nri.Int64(50000), Period: nri.UInt64(100000)},
			Memory: &nri.LinuxMemory{Limit: nri.Int64(1 << 30)}}}})
	if err != nil {
		t.Fatal(err)
	}
	if err := p.AllocateResources(c); err != nil {
		t.Fatalf("allocation failed: %v", err)
	}
	if c.GetCpusetCpus() == "" {
		t.Errorf("with the active configuration (PinCPU on) the container would have been pinned; after the rejected update it is not")
	}
}
