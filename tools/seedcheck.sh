#!/bin/bash
# usage: tools/seedcheck.sh [-j N] [name-glob] [prop ...]
# Re-runs the checks against the kept seeds WITHOUT touching /repo: each seed is applied to a scratch git
# worktree of /repo's HEAD (plus /repo's uncommitted contract files), govc runs with -repo <worktree> and a
# scratch -verif directory, and the worktree is removed afterwards. Updates seeded/<name>/meta.json
# ("checks", "caught"). With explicit props the recorded list of checks of each seed is replaced by them.
export GOFLAGS=-mod=mod GOPROXY=off GOSUMDB=off GOTOOLCHAIN=local
cd /verif
J=3
if [ "$1" = "-j" ]; then J="$2"; shift 2; fi
glob="${1:-*}"; shift
props="$*"
base=$(mktemp -d /tmp/seedcheck.XXXXXX)
one() {
  d="$1"; name=$(basename "$d"); wt="$base/$name/repo"; vf="$base/$name/verif"
  mkdir -p "$vf/replays" "$vf/evidence"; cp known-findings.txt "$vf/"; cp -r bounded "$vf/" 2>/dev/null; [ -d specs ] && cp -r specs "$vf/"
  git -C /repo worktree add --detach "$wt" HEAD -q >/dev/null 2>&1 || { echo "$name: worktree failed"; return; }
  # uncommitted contract files of /repo (work in progress) are part of the machinery under test
  (cd /repo && git ls-files -m -o --exclude-standard | grep 'verif_contracts.*\.go$' | while read f; do mkdir -p "$wt/$(dirname $f)"; cp "$f" "$wt/$f"; done)
  if ! git -C "$wt" apply "/verif/$d/patch.diff" 2>/dev/null && ! git -C "$wt" apply -3 "/verif/$d/patch.diff" 2>/dev/null && ! (cd "$wt" && patch -p1 --fuzz=3 -s < "/verif/$d/patch.diff" >/dev/null 2>&1); then echo "$name: PATCH DID NOT APPLY"; git -C /repo worktree remove --force "$wt"; return; fi
  # which checks to run: explicit list, else every property whose contracts live in a package the patch touches
  ps="$props"; [ -z "$ps" ] && ps=$(python3 - "$d/patch.diff" <<'PY'
import re,sys
m=[('pkg/cpuallocator','C08 C01'),('pkg/resmgr/lib/memory','C06 C07 C04'),('cmd/plugins/topology-aware','C01 C03 C04 C09 C12 C13 C16'),
   ('cmd/plugins/balloons','C02 C09 C12 C13 C19'),('pkg/resmgr/cache','C05 C10 C11 C14 C15 C18 C19 C20'),('pkg/resmgr/','C05 C11 C13 C14 C15'),
   ('pkg/kubernetes','C20 C03'),('pkg/agent','C17 C14 C15'),('pkg/apis/resmgr','C19 C14'),('pkg/apis/config','C19 C12 C02'),
   ('cmd/plugins/memory-qos','C14 C18'),('cmd/plugins/memtierd','C14 C18'),('cmd/plugins/sgx-epc','C14 C18'),('pkg/sysfs','C16')]
out=[]
for l in open(sys.argv[1]):
    if l.startswith('+++ b/'):
        f=l[6:].strip()
        for pre,ps in m:
            if f.startswith(pre):
                for x in ps.split():
                    if x not in out: out.append(x)
                break
print(' '.join(out))
PY
)
  res="{}"
  for p in $ps; do
    o=$(./bin/govc check -prop "$p" -repo "$wt" -verif "$vf" -workers 5 2>&1); rc=$?
    [ "$rc" = 2 ] && echo "$o" | tail -30 > "/tmp/seedcheck_err_${name}_${p}.log"
    n=$(echo "$o" | grep -c '^VIOLATION'); first=$(echo "$o" | grep '^VIOLATION' | head -3 | sed 's/.*obligation=//' | tr '\n' ';')
    res=$(python3 -c "import json,sys; d=json.loads(sys.argv[1]); d[sys.argv[2]]={'exit':int(sys.argv[3]),'violations':int(sys.argv[4]),'first_obligations':sys.argv[5]}; print(json.dumps(d))" "$res" "$p" "$rc" "$n" "$first")
  done
  git -C /repo worktree remove --force "$wt"; rm -rf "$base/$name"
  python3 - "$d" "$res" <<'PY'
import json,sys
d,res=sys.argv[1],json.loads(sys.argv[2])
m=json.load(open(d+'/meta.json')); m['checks']=res; m['caught']=any(v['exit']==1 for v in res.values()); m['checked_at_repo_commit']=__import__('subprocess').run(['git','-C','/repo','rev-parse','--short','HEAD'],capture_output=True,text=True).stdout.strip()
json.dump(m,open(d+'/meta.json','w'),indent=1)
print(d, "caught" if m['caught'] else "MISSED", {k:(v['exit'],v['violations']) for k,v in res.items()}, flush=True)
PY
}
export -f one; export base props
ls -d seeded/$glob/ | xargs -P "$J" -I{} bash -c 'one {}'
rmdir "$base" 2>/dev/null; git -C /repo worktree prune
