#!/bin/bash
# runs every claimed check (quick) on the current tree, in sequence, and reports; evidence files are rewritten
cd /verif
for p in $(python3 -c "import json;print(' '.join(sorted(json.load(open('tools/claims.json')).keys())))"); do
  ./check $p 2>&1 | grep -E "^VIOLATION|^KNOWN|^govc:" | cut -c1-200
done
