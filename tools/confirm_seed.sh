#!/bin/bash
# usage: tools/confirm_seed.sh <worktree> <k>   -- confirms a seeded change in its scratch worktree; writes SEED/<k>/confirm.json
export GOFLAGS=-mod=mod GOPROXY=off GOSUMDB=off GOTOOLCHAIN=local
wt="$1"; k="$2"; sd="$wt/SEED/$k"; cd "$wt" || exit 2
meta="$sd/meta.json"
demo_dir=$(python3 -c "import json;print(json.load(open('$meta'))['demo_dir'])")
pkgs=$(python3 -c "import json;print(' '.join(json.load(open('$meta')).get('touched_packages',[])))")
git checkout -q -- . ; git status --short | grep -v '^??' && { echo "worktree dirty"; exit 2; }
run_tests() { go test -vet=off -count=1 -json -timeout 20m $pkgs 2>/dev/null | python3 -c "
import sys,json
res={}
for l in sys.stdin:
    try: e=json.loads(l)
    except: continue
    if e.get('Action') in ('pass','fail') and e.get('Test'): res[e['Package']+'::'+e['Test']]=e['Action']
print(json.dumps(res))"; }
run_demo() { cp "$sd/demo_test.go" "$demo_dir/zz_seed_demo_test.go"; pat=$(grep -ohE '^func (Test[A-Za-z0-9_]+)' "$sd/demo_test.go" | sed 's/func //' | paste -sd'|'); (cd "$demo_dir" && go test -vet=off -count=1 -timeout 15m -run "^($pat)\$" . >/tmp/demo_$$.log 2>&1); rc=$?; rm -f "$demo_dir/zz_seed_demo_test.go"; return $rc; }
base=$(run_tests)
run_demo; demo_clean=$?
git apply "$sd/patch.diff" || { echo '{"ok":false,"why":"patch does not apply"}' > "$sd/confirm.json"; exit 1; }
go build ./... >/tmp/build_$$.log 2>&1; build=$?
mut=$(run_tests)
run_demo; demo_mut=$?
tail -5 /tmp/demo_$$.log > "$sd/demo_with_change.log"
git checkout -q -- .
rm -rf pkg/resmgr/cache/testdata 2>/dev/null
python3 - "$sd" "$build" "$demo_clean" "$demo_mut" <<PY
import json,sys
sd,build,dc,dm=sys.argv[1],int(sys.argv[2]),int(sys.argv[3]),int(sys.argv[4])
base=json.loads('''$base'''); mut=json.loads('''$mut''')
regress=[t for t,a in base.items() if a=='pass' and mut.get(t)!='pass']
ok = build==0 and dc==0 and dm!=0 and not regress
json.dump({"ok":ok,"build_ok":build==0,"demo_passes_without_change":dc==0,"demo_fails_with_change":dm!=0,"existing_tests_regressed":regress[:10],"existing_tests_compared":len(base)},open(sd+'/confirm.json','w'),indent=1)
print(sd, "CONFIRMED" if ok else "NOT CONFIRMED", {"build":build,"demo_clean":dc,"demo_mut":dm,"regress":len(regress),"tests":len(base)})
PY
