#!/bin/bash
# runs every claimed check in the thorough tier, in sequence; evidence files are rewritten (tier=thorough)
cd /verif
for p in $(python3 -c "import json;print(' '.join(sorted(json.load(open('tools/claims.json')).keys())))"); do
  /usr/bin/time -f "$p wall %e s" ./check $p --tier thorough 2>&1 | grep -E "^VIOLATION|^KNOWN|^govc:|wall" | cut -c1-220
done
