#!/usr/bin/env python3
"""Assembles /verif/DESIGN.md from tools/design/{head,props,tail,plan}.md, filling in the tables that are
derived from evidence/*.json, MANIFEST.json and seeded/*/meta.json (so the document cannot drift from them)."""
import json, os, glob, re
here = os.path.dirname(os.path.dirname(os.path.abspath(__file__)))
D = os.path.join(here, 'tools', 'design')
rd = lambda n: open(os.path.join(D, n)).read()
ev = {}
for f in glob.glob(os.path.join(here, 'evidence', '*.json')):
    e = json.load(open(f)); ev[e['property_id']] = e
man = json.load(open(os.path.join(here, 'MANIFEST.json')))
claimed = {c['property_id']: c for c in man['checks']}
na = {n['property_id']: n['reason'] for n in man.get('not_applicable', [])}

def funcs(pid):
    e = ev.get(pid)
    if not e: return '(no evidence file)'
    fs = e['coverage']['functions_under_contract']
    short = [re.sub(r'github.com/containers/nri-plugins/', '', f) for f in fs]
    return ', '.join('`%s`' % s for s in short)

def obl(pid):
    e = ev.get(pid)
    if not e: return '(no evidence file)'
    c = e['coverage']
    s = '%d obligations, %d discharged (%s tier run), %.0f solver-seconds, %.0f s wall' % (c['obligations'], c['discharged'], e['tier'], c.get('solver_seconds', 0), e['wall_s'])
    b = c.get('bounded_standins')
    if b:
        s += '; bounded stand-ins: ' + ', '.join('%s (%d cases)' % (x['name'], x['cases']) for x in b)
    return s

def trusted(pid):
    e = ev.get(pid)
    if not e: return '(no evidence file)'
    t = [x for x in e['coverage'].get('trusted_base', []) if x.startswith('assumed')]
    t = [re.sub(r'github.com/containers/nri-plugins/', '', x) for x in t]
    return '; '.join(t) if t else 'none beyond the library models (T3)'

def seedmatrix():
    rows = []
    for d in sorted(glob.glob(os.path.join(here, 'seeded', '*'))):
        m = json.load(open(os.path.join(d, 'meta.json')))
        name = os.path.basename(d)
        checks = m.get('checks', {})
        caught = [k for k, v in checks.items() if v.get('exit') == 1]
        first = ''
        for k in caught:
            first = checks[k].get('first_obligations', '').split(';')[0]
            break
        summ = m.get('summary', '').replace('\n', ' ').replace('|', '/')
        if len(summ) > 170: summ = summ[:167] + '…'
        res = ('**caught** by ' + ', '.join(caught) + (' (`%s`)' % first if first else '')) if caught else 'missed (checks run: %s)' % (', '.join(checks.keys()) or '-')
        rows.append('| %s | %s | %s |' % (name, summ, res))
    n = len(rows); c = sum('**caught**' in r for r in rows)
    return ('%d of %d seeded changes are caught.\n\n| seed | change | result |\n|---|---|---|\n' % (c, n)) + '\n'.join(rows)

def summary_table():
    rows = ['| property | status | obligations | functions under contract |', '|---|---|---|---|']
    ids = [json.loads(l)['id'] for l in open(os.path.join(here, 'properties.jsonl'))]
    for i in ids:
        if i in claimed:
            e = ev.get(i); c = e['coverage'] if e else {}
            rows.append('| %s | claimed | %s / %s discharged | %s |' % (i, c.get('obligations', '?'), c.get('discharged', '?'), len(c.get('functions_under_contract', []))))
        else:
            rows.append('| %s | not applicable | – | %s |' % (i, na.get(i, '')[:160]))
    return '\n'.join(rows)

props = rd('props.md') if os.path.exists(os.path.join(D, 'props.md')) else ''
txt = rd('head.md') + props + rd('tail.md') + rd('plan.md')
txt = re.sub(r'\{\{FUNCS:(C\d\d)\}\}', lambda m: funcs(m.group(1)), txt)
txt = re.sub(r'\{\{OBL:(C\d\d)\}\}', lambda m: obl(m.group(1)), txt)
txt = re.sub(r'\{\{TRUSTED:(C\d\d)\}\}', lambda m: trusted(m.group(1)), txt)
txt = txt.replace('SEED-MATRIX', seedmatrix()).replace('{{SUMMARY}}', summary_table())
open(os.path.join(here, 'DESIGN.md'), 'w').write(txt)
print('DESIGN.md written,', len(txt.splitlines()), 'lines')
