#!/bin/bash
# usage: tools/recheck_seeds.sh [name-glob]   re-runs the recorded checks for the kept seeds and updates meta.json
cd /verif
for d in seeded/${1:-*}/; do
  name=$(basename "$d"); props=$(python3 -c "import json;print(' '.join(json.load(open('$d/meta.json'))['checks'].keys()))")
  git -C /repo apply "/verif/$d/patch.diff" || { echo "$name: PATCH DID NOT APPLY"; continue; }
  res="{}"
  for p in $props; do o=$(./check "$p" 2>&1); rc=$?; n=$(echo "$o" | grep -c '^VIOLATION'); first=$(echo "$o" | grep '^VIOLATION' | head -3 | sed 's/.*obligation=//' | tr '\n' ';'); res=$(python3 -c "import json,sys; d=json.loads(sys.argv[1]); d[sys.argv[2]]={'exit':int(sys.argv[3]),'violations':int(sys.argv[4]),'first_obligations':sys.argv[5]}; print(json.dumps(d))" "$res" "$p" "$rc" "$n" "$first"); done
  git -C /repo checkout -- .
  python3 - "$d" "$res" <<'PY'
import json,sys
d,res=sys.argv[1],json.loads(sys.argv[2])
m=json.load(open(d+'/meta.json')); m['checks']=res; m['caught']=any(v['exit']==1 for v in res.values())
json.dump(m,open(d+'/meta.json','w'),indent=1)
print(d, "caught" if m['caught'] else "MISSED", {k:(v['exit'],v['violations']) for k,v in res.items()})
PY
done
