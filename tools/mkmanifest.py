#!/usr/bin/env python3
"""Regenerates /verif/MANIFEST.json from tools/claims.json (one entry per claimed property)."""
import json, os, subprocess
here = os.path.dirname(os.path.dirname(os.path.abspath(__file__)))
ids = [json.loads(l)['id'] for l in open(os.path.join(here, 'properties.jsonl'))]
claims = json.load(open(os.path.join(here, 'tools', 'claims.json')))
hooks = subprocess.run(['git', '-C', '/repo', 'log', '--format=%H %s'], capture_output=True, text=True).stdout.splitlines()
hook_commits = [l.split()[0] for l in hooks if ' verif hook:' in ' ' + l.split(' ', 1)[1]]
m = {
 "version": 1,
 "setup_cmd": "cd /verif/govc && GOFLAGS=-mod=mod GOPROXY=off GOSUMDB=off GOTOOLCHAIN=local go build -o /verif/bin/govc .",
 "hooks": {"guard": "verif", "enable": "go build -tags verif ./... (contract files verif_contracts*.go are comment-only and carry //go:build verif)",
           "baseline_off_cmd": "cd /repo && GOFLAGS=-mod=mod go test -vet=off -count=1 -timeout 25m ./... && cd pkg/topology && go test -vet=off -count=1 ./...",
           "source_commits": hook_commits, "add_only": True},
 "engines": [{"name": "govc", "path": "/verif/govc", "serves_properties": sorted(claims.keys()),
              "kind_free_text": "contract-based deductive verifier for Go written for this task: go/ssa -> weakest-precondition style verification conditions -> z3 4.8.12 | z3 5.1.0 | cvc5; contracts in /repo/**/verif_contracts*.go (build tag verif) and trusted library specs in /verif/specs"}],
 "checks": [], "not_applicable": [],
 "notes": "See DESIGN.md. Every check is ./check <id> [--tier thorough]; known findings in known-findings.txt; seeded breaking changes in seeded/.",
}
for i in ids:
    c = claims.get(i)
    if c is None or c.get('not_applicable'):
        reason = (c or {}).get('not_applicable', 'no contract within reach of the verifier decides any part of this property yet (see DESIGN.md)')
        m['not_applicable'].append({"property_id": i, "reason": reason})
        continue
    m['checks'].append({
        "property_id": i,
        "quick_cmd": f"./check {i} --tier quick",
        "thorough_cmd": f"./check {i} --tier thorough",
        "evidence_file": f"/verif/evidence/{i}.json",
        "replay_cmd_template": "cat {path}",
        "engine": "govc",
        "level_claimed": {"category": "proof", "text": c['text'], "design_ref": c.get('design_ref', 'DESIGN.md section 4 ' + i)},
        "level_note": c['note'],
        "technique": c.get('technique', 'contract-based deductive verification: requires/ensures/loop invariants on the real functions, VCs generated from go/ssa, discharged by SMT (z3/cvc5)'),
    })
json.dump(m, open(os.path.join(here, 'MANIFEST.json'), 'w'), indent=1)
print("claimed:", [c['property_id'] for c in m['checks']], "n/a:", len(m['not_applicable']))
