#!/bin/bash
# usage: tools/tryseed.sh <seed-dir containing patch.diff> <prop> [more props...]
d="$1"; shift
git -C /repo apply "$d/patch.diff" || { echo "PATCH DID NOT APPLY"; exit 3; }
for p in "$@"; do /verif/check "$p" 2>&1 | grep -E "VIOLATION|KNOWN|govc:" | cut -c1-260; done
git -C /repo checkout -- .
