#!/bin/bash
# usage: tools/keepseed.sh <worktree> <k> <name> <prop> [props...]  -- copies a confirmed seed to /verif/seeded/<name> and records which checks catch it
wt="$1"; k="$2"; name="$3"; shift 3
sd="$wt/SEED/$k"; out="/verif/seeded/$name"
[ -f "$sd/confirm.json" ] && python3 -c "import json,sys; sys.exit(0 if json.load(open('$sd/confirm.json'))['ok'] else 1)" || { echo "seed $sd not confirmed"; exit 1; }
mkdir -p "$out"; cp "$sd/patch.diff" "$sd/demo_test.go" "$out/" 2>/dev/null; 
git -C /repo apply "$sd/patch.diff" || { echo "PATCH DID NOT APPLY to /repo"; exit 3; }
res="{}"
for p in "$@"; do o=$(/verif/check "$p" 2>&1); rc=$?; n=$(echo "$o" | grep -c '^VIOLATION'); first=$(echo "$o" | grep '^VIOLATION' | head -3 | sed 's/.*obligation=//' | tr '\n' ';'); res=$(python3 -c "import json,sys; d=json.loads(sys.argv[1]); d[sys.argv[2]]={'exit':int(sys.argv[3]),'violations':int(sys.argv[4]),'first_obligations':sys.argv[5]}; print(json.dumps(d))" "$res" "$p" "$rc" "$n" "$first"); done
git -C /repo checkout -- .
python3 - "$sd" "$out" "$res" <<'PY'
import json,sys
sd,out,res=sys.argv[1],sys.argv[2],json.loads(sys.argv[3])
m=json.load(open(sd+'/meta.json')); c=json.load(open(sd+'/confirm.json'))
m['confirmed']=c; m['what_i_ran']="tools/confirm_seed.sh (scratch worktree: go build ./...; existing tests of touched packages with/without the change compared per test; demonstration with/without the change) and tools/keepseed.sh (patch applied to /repo, ./check <prop> for the listed properties, reverted)"
m['checks']=res; m['caught']=any(v['exit']==1 for v in res.values())
json.dump(m,open(out+'/meta.json','w'),indent=1)
print(out, "caught" if m['caught'] else "MISSED", {k:v['violations'] for k,v in res.items()})
PY
